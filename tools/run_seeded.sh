#!/bin/bash
# Applies each seeded property-breaking change under /verif/seeded/*/ to /repo,
# checks that the repository's own tests still pass, runs the quick check of
# the property it breaks (and any extra checks given in meta.json
# "also_checks"), and reverts /repo. Prints one line per mutant.
#   tools/run_seeded.sh [tier] [id-glob]
set -u
TIER="${1:-quick}"
GLOB="${2:-*}"
V=/verif
export GOFLAGS=-mod=mod GOPROXY=off GOSUMDB=off GOTOOLCHAIN=local
if [ -n "$(git -C /repo status --porcelain)" ]; then echo "/repo is not clean"; exit 2; fi
trap 'git -C /repo checkout -- . 2>/dev/null; git -C /repo clean -fdq 2>/dev/null' EXIT
pass=0; fail=0
for d in $V/seeded/$GLOB/; do
  id=$(basename "$d")
  [ -f "$d/patch.diff" ] || continue
  prop=$(python3 -c "import json;print(json.load(open('$d/meta.json'))['property'])")
  also=$(python3 -c "import json;print(' '.join(json.load(open('$d/meta.json')).get('also_checks',[])))")
  # a hunk that only fits at an offset may have landed in a look-alike function
  # (it happened to C02-muta2 after a fix moved the file): refuse, rebase by hand
  if git -C /repo apply --check -v "$d/patch.diff" 2>&1 | grep -q 'offset'; then echo "$id: PATCH-APPLIES-ONLY-AT-AN-OFFSET (rebase it)"; fail=$((fail+1)); continue; fi
  if ! git -C /repo apply "$d/patch.diff" 2>/tmp/apply.err; then echo "$id: PATCH-DOES-NOT-APPLY $(head -1 /tmp/apply.err)"; fail=$((fail+1)); continue; fi
  if ! (cd /repo && go build ./... && go test -count=1 ./... >/tmp/seed_test.log 2>&1); then tests="repo-tests-FAIL"; else tests="repo-tests-pass"; fi
  res=""
  for c in $prop $also; do
    out=$(cd $V && timeout 600 bin/vcheck $c $TIER 2>&1); rc=$?
    n=$(echo "$out" | grep -c '^VIOLATION')
    if [ $rc -eq 1 ] && [ $n -gt 0 ]; then res="$res $c:DETECTED($n)"; else res="$res $c:missed(rc=$rc)"; fi
  done
  git -C /repo checkout -- . ; git -C /repo clean -fdq
  case "$res" in *"$prop:DETECTED"*) pass=$((pass+1));; *) fail=$((fail+1));; esac
  echo "$id: $tests$res"
done
echo "detected-by-own-property-check=$pass not=$fail"
