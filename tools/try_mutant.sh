#!/bin/bash
# tools/try_mutant.sh <file> <old> <new> <check...> : apply a one-line textual change to /repo, run checks, revert.
set -u
f="$1"; old="$2"; new="$3"; shift 3
export GOFLAGS=-mod=mod GOPROXY=off GOSUMDB=off GOTOOLCHAIN=local
[ -z "$(git -C /repo status --porcelain)" ] || { echo "/repo dirty"; exit 2; }
trap 'git -C /repo checkout -- .' EXIT
python3 - "$f" "$old" "$new" <<'PY'
import sys
p,old,new='/repo/'+sys.argv[1],sys.argv[2],sys.argv[3]
s=open(p).read()
assert s.count(old)>=1, "pattern not found"
open(p,'w').write(s.replace(old,new,1))
PY
[ $? -eq 0 ] || exit 2
(cd /repo && go build ./... && go test -count=1 ./... >/dev/null 2>&1 && echo "repo tests: pass" || echo "repo tests: FAIL")
for c in "$@"; do
  out=$(cd /verif && timeout 900 bin/vcheck $c quick 2>&1); rc=$?
  echo "$c rc=$rc $(echo "$out" | grep -c '^VIOLATION') violations; first: $(echo "$out" | grep -A1 '^VIOLATION' | sed -n 2p | cut -c1-160)"
done
