#!/bin/bash
# tools/confirm_seed.sh <Cxx> <mutA|mutB> : confirm a sub-agent's seeded change in its scratch worktree
# (repo tests pass with it, demo fails with it and passes without it) and store it under /verif/seeded/.
set -u
P="$1"; M="$2"
W=${SEEDROOT:-/tmp/seed}/$P; S=$W/SEED/$M
export GOFLAGS=-mod=mod GOPROXY=off GOSUMDB=off GOTOOLCHAIN=local
[ -f "$S/patch.diff" ] || { echo "no patch in $S"; exit 2; }
cd $W || exit 2
git checkout -q -- . ; git clean -fdq -e SEED
demos=$(find $S -name '*_test.go')
[ -n "$demos" ] || { echo "no demo test"; exit 2; }
place() { # copy demos to their package directories; prints the destinations
  for f in $demos; do
    pkg=$(grep -m1 '^package ' $f | awk '{print $2}')
    case "$pkg" in ipmi|ipmi_test) d=pkg/ipmi;; dcmi|dcmi_test) d=pkg/dcmi;; transport) d=internal/pkg/transport;; bcd|bcd_test) d=internal/pkg/bcd;; *) d=.;; esac
    cp $f $W/$d/zz_seed_$(basename $f); echo "$d/zz_seed_$(basename $f)"
  done
}
dests=$(place)
pkgs=$(for d in $dests; do echo ./$(dirname $d); done | sort -u | tr '\n' ' ')
names=$(grep -h -o '^func Test[A-Za-z0-9_]*' $demos | sed 's/func //' | sort -u | paste -sd'|')
# without the change: demo passes
go test -count=1 -run "^($names)\$" $pkgs > /tmp/confirm_without.log 2>&1; rc_without=$?
git apply $S/patch.diff || { echo "patch does not apply"; exit 2; }
go build ./... > /tmp/confirm_build.log 2>&1; rc_build=$?
rm -f $dests
go test -count=1 $(go list -e ./... | grep -v /SEED) > /tmp/confirm_suite.log 2>&1; rc_suite=$?  # SEED/ holds demos declared in other packages
place > /dev/null
go test -count=1 -run "^($names)\$" $pkgs > /tmp/confirm_with.log 2>&1; rc_with=$?
rm -f $dests; git checkout -q -- . ; git clean -fdq -e SEED
echo "$P/$M: build=$rc_build suite_with_change=$rc_suite demo_without=$rc_without demo_with=$rc_with (want 0 0 0 nonzero)"
if [ $rc_build -eq 0 ] && [ $rc_suite -eq 0 ] && [ $rc_without -eq 0 ] && [ $rc_with -ne 0 ]; then
  id="$P-$(echo $M | tr A-Z a-z)${SEEDSUFFIX:-}"
  D=/verif/seeded/$id; mkdir -p $D/demo
  cp $S/patch.diff $D/; cp $demos $D/demo/; [ -f $S/notes.md ] && cp $S/notes.md $D/
  tail -5 /tmp/confirm_with.log > $D/demo_fails_with_change.txt
  tail -3 /tmp/confirm_without.log > $D/demo_passes_without_change.txt
  echo "CONFIRMED -> $D"
else
  echo "NOT CONFIRMED"; tail -n 5 /tmp/confirm_with.log; tail -n 5 /tmp/confirm_without.log; tail -n 5 /tmp/confirm_suite.log
fi
