#!/usr/bin/env python3
# tools/bounds_table.py <dir-with-quick-evidence> <dir-with-thorough-evidence>
# Prints the markdown table of DESIGN.md section 9.5 from evidence files
# written by the checks themselves (nothing in it is typed by hand).
import json, sys, os
def load(d, i):
    p = os.path.join(d, f"C{i:02d}.json")
    if not os.path.exists(p): return None
    return json.load(open(p))
def cell(e):
    if e is None: return "—"
    c = e["coverage"]
    if isinstance(c, str): c = json.loads(c)
    parts = [f"{c['evaluations']:,} cases"]
    if c.get("states"): parts.append(f"{c['states']:,} states / {c['transitions']:,} transitions")
    b = {k: v for k, v in (c.get("bounds") or {}).items() if k != "instrumentation"}
    def short(v):
        v = json.dumps(v) if not isinstance(v, (int, str)) else str(v)
        return v if len(v) <= 70 else v[:67] + "..."
    if b: parts.append(", ".join(f"{k}={short(v)}" for k, v in sorted(b.items())))
    parts.append(f"{len(c.get('outcomes') or {})} outcome classes")
    if not c.get("exhaustive", True): parts.append("NOT exhaustive: " + str(c.get("caps_hit")))
    parts.append(f"{e['wall_s']:.0f} s")
    return "; ".join(parts)
q, t = sys.argv[1], sys.argv[2]
print("| id | quick | thorough |\n|----|-------|----------|")
for i in range(1, 21):
    print(f"| C{i:02d} | {cell(load(q,i))} | {cell(load(t,i))} |")
