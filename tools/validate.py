#!/usr/bin/env python3
import json, sys, glob, jsonschema
ok = True
def v(path, schema):
    global ok
    try:
        jsonschema.validate(json.load(open(path)), json.load(open(schema)))
        print("valid:", path)
    except Exception as e:
        ok = False
        print("INVALID:", path, str(e)[:400])
v('/verif/MANIFEST.json', '/root/.vp/MANIFEST.schema.json')
for p in sorted(glob.glob('/verif/evidence/*.json')):
    v(p, '/root/.vp/EVIDENCE.schema.json')
sys.exit(0 if ok else 1)
