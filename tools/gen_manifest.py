#!/usr/bin/env python3
"""Generates /verif/MANIFEST.json from the table below (kept in one place so the
manifest stays valid while checks are added)."""
import json, os, sys
HERE = os.path.dirname(os.path.dirname(os.path.abspath(__file__)))

BASELINE_OFF = ("cd /repo && export GOFLAGS=-mod=mod GOPROXY=off GOSUMDB=off GOTOOLCHAIN=local && "
                "go build ./... && go test -json -vet=off -count=1 -timeout 25m ./...")

# id -> (engine, technique, level text, level note, design_ref)
CHECKS = {}
def chk(id, engine, technique, text, note, ref):
    CHECKS[id] = dict(engine=engine, technique=technique, text=text, note=note, ref=ref)

exec(open(os.path.join(HERE, "tools", "manifest_table.py")).read())

props = [json.loads(l)["id"] for l in open(os.path.join(HERE, "properties.jsonl"))]
checks, na = [], []
for p in props:
    if p in CHECKS:
        c = CHECKS[p]
        checks.append({
            "property_id": p,
            "quick_cmd": f"bin/vcheck {p} quick",
            "thorough_cmd": f"bin/vcheck {p} thorough",
            "evidence_file": f"/verif/evidence/{p}.json",
            "replay_cmd_template": "bin/vcheck replay {path}",
            "engine": c["engine"],
            "technique": c["technique"],
            "level_claimed": {"category": "model_checking", "text": c["text"], "design_ref": c["ref"]},
            "level_note": c["note"],
        })
    else:
        na.append({"property_id": p, "reason": NOT_CLAIMED.get(p, "check not built yet in this session; see DESIGN.md section 4 for the planned exhaustive exploration")})

m = {
    "version": 1,
    "setup_cmd": "bin/vcheck build",
    "hooks": {
        "guard": "verif",
        "enable": "go build -tags verif (the harness module replaces github.com/gebn/bmc => /repo and github.com/cenkalti/backoff/v4 => /verif/shims/backoff)",
        "baseline_off_cmd": BASELINE_OFF,
        "source_commits": HOOK_COMMITS,
        "add_only": True,
    },
    "engines": ENGINES,
    "checks": checks,
    "notes": NOTES,
    "not_applicable": na,
}
json.dump(m, open(os.path.join(HERE, "MANIFEST.json"), "w"), indent=1)
print("checks:", [c["property_id"] for c in checks], "not claimed:", [n["property_id"] for n in na])
