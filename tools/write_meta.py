#!/usr/bin/env python3
# tools/write_meta.py <id> <needs text> [also_check ...] : writes seeded/<id>/meta.json for a confirmed round-3 seed
import json,sys,re
sid=sys.argv[1]; needs=sys.argv[2]; also=sys.argv[3:]
prop=sid.split('-')[0]
rnd=sid[-1] if sid[-1].isdigit() else '1'
meta={"id":sid,"property":prop,"needs":needs,"also_checks":also,
 "origin":f"independent sub-agent (round {rnd}: told the obvious sites were used already; asked for second-level helpers, rare values, history-dependent faults) given only the property text and a scratch worktree",
 "what_i_ran":f"tools/confirm_seed.sh (SEEDROOT=/tmp/seed{rnd}): in the sub-agent's scratch worktree: demo passes on the clean tree; `git apply patch.diff`; build ok; repository suite passes; demo fails; tree restored. Then tools/run_seeded.sh applies the patch to /repo, runs the property's check and reverts."}
json.dump(meta,open(f"/verif/seeded/{sid}/meta.json","w"),indent=1)
