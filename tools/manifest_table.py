HOOK_COMMITS = ["ec32d95"]
NOT_CLAIMED = {}
NOTES = ("All checks explore the real gebn/bmc code (module replace => /repo, tag verif) exhaustively within stated bounds; "
         "see DESIGN.md. Exit 0 held / 1 VIOLATION / 2 infrastructure error. known_findings.jsonl lists recorded findings and fixes.")
ENGINES = [
    {"name": "domx", "path": "harness/checks", "serves_properties": ["C20"],
     "kind_free_text": "bounded-exhaustive enumeration of input domains of the real codec functions against an independent reference"},
]
chk("C20", "domx",
    "exhaustive enumeration of each primitive's whole input domain on the implementation vs. mathematical definition",
    "Every input of every primitive conversion (all 256 bytes, all 10-bit/4-bit patterns, every nibble/6-bit code/byte at every position of strings of 0..31 characters, every whole-second duration to 65 days in the thorough tier, all entity instances) is run through the exported API that wraps it and compared with the definition. The domains are finite, so this is a complete decision for them.",
    "Trusts the harness's own reference definitions (a few lines each, table-free) and that the exported wrappers add nothing (they are single assignments). Quick tier thins the 5.6M-second duration domain after 2 days to day boundaries and a 61 s stride.",
    "DESIGN.md section 4 C20")
ENGINES += [
    {"name": "envx", "path": "harness/env", "serves_properties": ["C01", "C02", "C12"],
     "kind_free_text": "deviation-bounded exhaustive exploration of environment answers (reply menus at every Transport.Send) on the real library over an in-memory socket model, against the independent reference BMC in harness/ref"},
    {"name": "refbmc", "path": "harness/ref", "serves_properties": ["C01", "C02", "C12"],
     "kind_free_text": "independent reference implementation of RMCP+/RAKP/integrity/AES-CBC and a small BMC (imports nothing from gebn/bmc); the oracle"},
]
chk("C01", "envx+refbmc",
    "exhaustive enumeration of handshake configurations executed on the implementation against an independent reference BMC",
    "Every configuration in the product of 15 suites (9 must-succeed, 6 with None), user-name length 0..16, password length 0..20, KG absent/present, privilege 0..5, both lookup modes and a BMC alphabet (randoms, GUID, session IDs incl. collision with the console's) is run through the real NewV2Session, two commands and Close against a BMC that derives its keys independently and rejects wrong AuthCodes; SIK/K1/K2 are compared byte for byte and every datagram must pass the BMC's integrity check, decryption and parsing.",
    "Key/user-name byte values follow fixed patterns (HMAC is value-agnostic; code branches on lengths only). The reference BMC is bound to reality by agreeing with the library on all nine suites (mutual check). None-suites may be refused with an error.",
    "DESIGN.md section 4 C01")
chk("C02", "envx+refbmc",
    "deviation-bounded (k<=1 full alphabet, k<=2 reduced) exhaustive exploration of mutated handshake transcripts on the implementation",
    "From correct transcripts for each authentication algorithm every single mutation of a handshake reply is enumerated (each bit of every authenticated field, statuses 1..255, all other tags, every truncation, code-length changes, unauthenticated-byte corruption, datagram cuts, wrong password / wrong KG), sticky across retransmissions; oracle: no session unless its keys equal the BMC's, ErrIncorrectPassword for a wrong RAKP2 code.",
    "Mutations are sticky per payload type with a 4-attempt horizon after which the context expires. Thorough adds all pairs over a reduced alphabet.",
    "DESIGN.md section 4 C02")
chk("C12", "envx+refbmc",
    "exhaustive enumeration of preference lists x advertised sets x response triples on the implementation vs. a selection reference model",
    "All 113 ordered preference lists over a 4-suite universe (with and without repetition, and the empty list) x all 16 advertised subsets x 3 advertisement layouts are served through real Get Channel Cipher Suites paging and compared with the documented selection rule; then every one of 150 algorithm triples is placed in the Open Session Response for each proposal, the BMC following through, and a session may only result when the triple equals the proposal.",
    "Universe of 4 suites; the BMC's follow-through makes a silently accepted downgrade observable.",
    "DESIGN.md section 4 C12, appendix A.4")
