HOOK_COMMITS = ["ec32d95"]
NOT_CLAIMED = {}
NOTES = ("All checks explore the real gebn/bmc code (module replace => /repo, tag verif) exhaustively within stated bounds; "
         "see DESIGN.md. Exit 0 held / 1 VIOLATION / 2 infrastructure error. known_findings.jsonl lists recorded findings and fixes.")
ENGINES = [
    {"name": "domx", "path": "harness/checks", "serves_properties": ["C20"],
     "kind_free_text": "bounded-exhaustive enumeration of input domains of the real codec functions against an independent reference"},
]
chk("C20", "domx",
    "exhaustive enumeration of each primitive's whole input domain on the implementation vs. mathematical definition",
    "Every input of every primitive conversion (all 256 bytes, all 10-bit/4-bit patterns, every nibble/6-bit code/byte at every position of strings of 0..31 characters, every whole-second duration to 65 days in the thorough tier, all entity instances) is run through the exported API that wraps it and compared with the definition. The domains are finite, so this is a complete decision for them.",
    "Trusts the harness's own reference definitions (a few lines each, table-free) and that the exported wrappers add nothing (they are single assignments). Quick tier thins the 5.6M-second duration domain after 2 days to day boundaries and a 61 s stride.",
    "DESIGN.md section 4 C20")
