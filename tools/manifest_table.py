HOOK_COMMITS = ["ec32d95"]
NOT_CLAIMED = {}
NOTES = ("All checks explore the real gebn/bmc code (module replace => /repo, tag verif) exhaustively within stated bounds; "
         "see DESIGN.md. Exit 0 held / 1 VIOLATION / 2 infrastructure error. known_findings.jsonl lists recorded findings and fixes.")
ENGINES = [
    {"name": "domx", "path": "harness/checks", "serves_properties": ["C20"],
     "kind_free_text": "bounded-exhaustive enumeration of input domains of the real codec functions against an independent reference"},
]
chk("C20", "domx",
    "exhaustive enumeration of each primitive's whole input domain on the implementation vs. mathematical definition",
    "Every input of every primitive conversion (all 256 bytes, all 10-bit/4-bit patterns, every nibble/6-bit code/byte at every position of strings of 0..31 characters, every whole-second duration to 65 days in the thorough tier, all entity instances) is run through the exported API that wraps it and compared with the definition. The domains are finite, so this is a complete decision for them.",
    "Trusts the harness's own reference definitions (a few lines each, table-free) and that the exported wrappers add nothing (they are single assignments). Quick tier thins the 5.6M-second duration domain after 2 days to day boundaries and a 61 s stride.",
    "DESIGN.md section 4 C20")
ENGINES += [
    {"name": "envx", "path": "harness/env", "serves_properties": ["C01", "C02", "C03", "C04", "C05", "C09", "C10", "C11", "C12", "C13", "C14", "C16"],
     "kind_free_text": "deviation-bounded exhaustive exploration of environment answers (reply menus at every Transport.Send) on the real library over an in-memory socket model, against the independent reference BMC in harness/ref"},
    {"name": "refbmc", "path": "harness/ref", "serves_properties": ["C01", "C02", "C03", "C04", "C05", "C06", "C07", "C09", "C10", "C11", "C12", "C13", "C14", "C15", "C16", "C18"],
     "kind_free_text": "independent reference implementation of RMCP+/RAKP/integrity/AES-CBC and a small BMC (imports nothing from gebn/bmc); the oracle"},
]
chk("C01", "envx+refbmc",
    "exhaustive enumeration of handshake configurations executed on the implementation against an independent reference BMC",
    "Every configuration in the product of 15 suites (9 must-succeed, 6 with None), user-name length 0..16, password length 0..20, KG absent/present, privilege 0..5, both lookup modes and a BMC alphabet (randoms, GUID, session IDs incl. collision with the console's) is run through the real NewV2Session, two commands and Close against a BMC that derives its keys independently and rejects wrong AuthCodes; SIK/K1/K2 are compared byte for byte and every datagram must pass the BMC's integrity check, decryption and parsing.",
    "Key/user-name byte values follow fixed patterns (HMAC is value-agnostic; code branches on lengths only). The reference BMC is bound to reality by agreeing with the library on all nine suites (mutual check). None-suites may be refused with an error.",
    "DESIGN.md section 4 C01")
chk("C02", "envx+refbmc",
    "deviation-bounded (k<=1 full alphabet, k<=2 reduced) exhaustive exploration of mutated handshake transcripts on the implementation",
    "From correct transcripts for each authentication algorithm every single mutation of a handshake reply is enumerated (each bit of every authenticated field, statuses 1..255, all other tags, every truncation, code-length changes, unauthenticated-byte corruption, datagram cuts, wrong password / wrong KG), sticky across retransmissions; oracle: no session unless its keys equal the BMC's, ErrIncorrectPassword for a wrong RAKP2 code.",
    "Mutations are sticky per payload type with a 4-attempt horizon after which the context expires. Thorough adds all pairs over a reduced alphabet.",
    "DESIGN.md section 4 C02")
chk("C12", "envx+refbmc",
    "exhaustive enumeration of preference lists x advertised sets x response triples on the implementation vs. a selection reference model",
    "All 113 ordered preference lists over a 4-suite universe (with and without repetition, and the empty list) x all 16 advertised subsets x 3 advertisement layouts are served through real Get Channel Cipher Suites paging and compared with the documented selection rule; then every one of 150 algorithm triples is placed in the Open Session Response for each proposal, the BMC following through, and a session may only result when the triple equals the proposal.",
    "Universe of 4 suites; the BMC's follow-through makes a silently accepted downgrade observable.",
    "DESIGN.md section 4 C12, appendix A.4")
ENGINES += [
    {"name": "histx", "path": "harness/checks/hist.go", "serves_properties": ["C03", "C04", "C05", "C09", "C10", "C11", "C17", "C18"],
     "kind_free_text": "envx iterated over caller histories: all command sequences up to depth D on one real connection/session x all per-attempt answer vectors with <= k deviations, replaying each path on a fresh instance"},
]
chk("C03", "histx+refbmc",
    "deviation-bounded exhaustive exploration of in-session command histories on the implementation; every transmitted datagram verified by an independent BMC",
    "For 9 suites x 77 command variants (all library commands plus caller-defined commands with request bodies of 0..48 bytes, so the plaintext length takes every residue mod 16) x single-command and 3-command histories with retransmissions (<=1 deviation quick, <=2 thorough), the reference BMC checks on every datagram: its session ID, the negotiated flags, the AuthCode (recomputed under its own K1 over auth-type..next-header), 0xFF integrity pad / pad length / next header / 4-byte alignment, AES-CBC under its own K2 with the 01,02.. pad, both checksums, that the plaintext is the caller's command, and that no IV repeats in the session.",
    "With AES negotiated the payload is always a multiple of 16, so in-session integrity pads are always 2 bytes; other pad residues are covered at layer level by C08. Independent crypto in harness/ref (std crypto only).",
    "DESIGN.md section 4 C03")
chk("C04", "histx+refbmc",
    "fault enumeration at every in-session receive point: forgery catalogue + every single-bit flip + every truncation of the authentic reply, on the implementation",
    "At each receive point of 4 commands and of Close Session, under 3 (5 thorough) integrity suites, the honest reply is replaced by each of 20 forgeries built with the real keys (flags cleared, empty/short/long/zero/wrong-key/wrong-range AuthCode, other session IDs, unsigned plaintext, six invalid confidentiality pads under a valid signature), by every single-bit flip and by every truncation; the retry then gets the honest reply. Oracle: result equals the authentic value or is an error, and a successful call never ends on a forged datagram (decided from the transport's record of which datagram each read consumed).",
    "k=1 complete (k=2 over the catalogue in thorough). A 16-byte correct confidentiality pad is tolerated by documented design.",
    "DESIGN.md section 4 C04")
chk("C09", "histx",
    "exhaustive exploration of command histories x per-attempt outcome vectors (bounded D, A, k) on the implementation vs. a sequence-number reference model",
    "All histories of <= D commands over a 6-command alphabet (incl. a request that cannot be serialised) plus Close, in and outside a session, x every vector of per-attempt answers with <= k deviations from {ok, final code, node busy, timeout code, garbage, truncated body, lost reply, bad signature/lost request, context expiry} up to A answers per call, plus the handshake under lost/garbage replies, plus a 24-command structured history; oracle on every transmitted datagram: in-session sequence numbers are exactly 1,2,3.. per transmission with the BMC's session ID, the console counter equals the number transmitted, everything outside a session carries session ID 0 and sequence 0.",
    "D=2,A=3,k=2 quick; D=3,A=4,k=2 x 3 suites thorough. 'Longer random histories' of the property text are replaced by structured enumerated ones.",
    "DESIGN.md section 4 C09, appendix A.3")
chk("C10", "histx",
    "same exploration as C09, compared step by step with a reference model of the documented retry contract",
    "For every execution of the C09 space the number of transmissions and the returned (code, error) are compared with the reference retry model derived from Connection.SendCommand's documentation (retry on 0xC0/0xC3 and undecodable replies, first other code is final, session-less loss retried until the context expires, in-session transport failure terminal), and every transmission - first or repeated - must decode at the reference BMC to the caller's command, well-formed and for the right session; handshake payloads: identical retransmissions, termination, session only with the BMC's keys.",
    "Same bounds as C09. For truncated handshake payloads the text leaves retry-or-error free.",
    "DESIGN.md section 4 C10, appendix A.2")
chk("C11", "histx",
    "exhaustive exploration of 3-command histories under socket-queue events (delay, duplicate, reorder, stray reply) on the implementation",
    "All 56 ordered pairs of distinct commands (plus a third command) outside and inside a session x all placements of <= 2 (in-session quick: 1) socket events {reply delayed past the timeout, duplicated, held until after the next reply, stray valid reply of another command first, lost} over a FIFO socket model; oracle: every nil-error result equals the BMC's answer to that very command (differential against the undisturbed run).",
    "FIFO one-read-per-attempt socket model (that is what transport.Send does). Replies of the same NetFn/command are indistinguishable by the property's criterion and are not judged.",
    "DESIGN.md section 4 C11, appendix A.1")
ENGINES[0]["serves_properties"] = ["C05", "C06", "C07", "C08", "C15", "C17", "C20"]
chk("C05", "domx+histx",
    "exhaustive structural enumeration of byte strings per decodable layer (exact-capacity + poisoned-window decoding) and fault enumeration of the same catalogue at every protocol position",
    "Layer level: for each of the 31 decodable layers (registry cross-checked against a go/ast scan of /repo) every length 0..MaxLen x fills, every base encoding with every byte set to all 256 values, all truncations/extensions, two-byte deviations, and crafted check-straddling inputs (wrapper length x remaining, AES pad-length byte 0..255 with the IV shaped as the validator expects, messages of every short length per NetFn class, type/length x remaining, record counts x remaining); each decoded on an exact-capacity slice under recover and as a window of a 512-byte buffer under two poison fills (difference = dependence on bytes past the datagram), with a watchdog. Protocol level: ~900 nasty replies (bodies of every length/fill, cut bodies, short messages, crafted AES payloads signed with the session keys, wrapper-level garbage) substituted at every receive point of 13 calls incl. SDR walk, DCMI enumeration, discovery pages and each handshake step.",
    "Byte strings are enumerated structurally, not all 256^512. Protocol level uses exact-capacity delivery; window delivery is covered at layer level.",
    "DESIGN.md section 4 C05")
chk("C06", "domx+refbmc",
    "exhaustive enumeration of request field values sent through the real send paths, parsed by the independent BMC",
    "Every request layer x every value of each field (whole wire domain for fields of <= 8 bits, boundary alphabets for 16/32-bit ones, each axis complete) is sent through V2Sessionless.SendCommand and through V2Session.SendCommand; the reference BMC checks the RMCP header, wrapper, addresses, NetFn/LUN/command, both checksums and compares the body with an independently written encoding; Open Session Request / RAKP 1 / RAKP 3 are compared byte for byte at layer level for all field values, user names of 17 bytes must be refused.",
    "Out-of-domain caller values (e.g. channel > 15) are not judged. Setup payloads reach the wire only through NewV2Session with fixed tag/session ID; that path is covered by C01.",
    "DESIGN.md section 4 C06")
chk("C07", "domx+refcodec",
    "exhaustive per-byte enumeration of response encodings decoded by the library and by an independent reference decoder",
    "For 23 response layers every byte of every base encoding takes all 256 values, 10-bit and 4-bit fields of the Full Sensor Record are enumerated in full, ID strings cover 4 encodings x 0..31 characters x contents x trailing bytes, optional tails every length; all fields the reference defines are compared by name via reflection. Every wrong value of either message checksum, wrapper length fields beyond the data and bodies below the layer minimum must be rejected.",
    "Reference decoders (harness/ref/codec.go) are written from the specification tables; where the repository documents a deliberate reading (flag polarity in Get Channel Authentication Capabilities, DCMI SEL attributes, 1-byte Open Session error) the reference follows it. Encodings with reserved bits set are decoded but not judged.",
    "DESIGN.md section 4 C07")
chk("C08", "domx",
    "exhaustive enumeration of field values x payload lengths 0..200 for the five two-way layers: serialise/decode/serialise identities",
    "v1.5 wrapper, v2.0 wrapper (12 payload descriptors incl. OEM explicit, 4 flag combinations, 3 integrity algorithms x 3 keys, ID/sequence alphabets), IPMI message (all 64 NetFns, LUNs, sequence numbers, body codes, enterprise numbers, completion codes), AES-128-CBC (every payload length 0..200 x keys x IVs) and RAKP Message 1 (user names 0..17): decode(serialise(x)) = x with the inner payload returned, serialise(decode(bytes)) = bytes; the authenticated trailer is also checked against the pad rule independently.",
    "A fresh SerializeBuffer per case (which is what exposed the AES stale-slice defect). 32-bit fields over a boundary alphabet.",
    "DESIGN.md section 4 C08")
chk("C15", "domx+refbmc",
    "axis-complete exhaustive enumeration through record -> reader -> Read against exact rational arithmetic",
    "Raw 0..255 x 3 analog formats x 12 linearisations complete for boundary factor sets; M and B over all 1024 values, K1 x K2 over all 256 pairs, pairs of boundary sets, all 256 flag bytes, all 128 linearisation codes x 4 formats for reader refusal; every case goes record bytes -> FullSensorRecord.DecodeFromBytes -> NewSensorReader -> Read over a real session to the reference BMC; expected value by math/big rationals with a derived forward-error bound and interval evaluation through L.",
    "Tolerance 8*2^-53*(|Mx|+|B|10^K1)*10^K2, hull widened by 16 ulp; intervals containing a singularity of L are not judged (counted).",
    "DESIGN.md section 4 C15")
chk("C17", "domx+histx",
    "exhaustive ordered pairs (earlier, later) per layer: decode-into-used vs decode-into-fresh; ordered command pairs on one connection vs fresh connection",
    "For each of the 31 decodable layers every ordered pair from a shape catalogue (valid encodings per branch and tail length, all-FF/all-00 variants, every truncation, extensions) is decoded earlier-then-later into one value and later into a fresh one; all exported fields, contents and payload must agree (error status too). Connection level: all ordered pairs over 12 operations (incl. SDR retrieval and DCMI enumeration) in and outside a session, the first also failed/retried (k<=1), second result must equal the fresh-connection result.",
    "Observable = %+v rendering (nil vs empty slice not distinguished).",
    "DESIGN.md section 4 C17")
ENGINES += [
    {"name": "vclock+udp", "path": "harness/checks/c13.go", "serves_properties": ["C13", "C18"],
     "kind_free_text": "virtual clock behind the back-off seam and the transport (lost replies and sleeps charge virtual time, the deadline cancels the caller's context) plus a UDP-loopback reference BMC for hook-free real-time replay"},
]
chk("C13", "envx(virtual time)+udp replay",
    "exhaustive fault enumeration over (call, fault pattern, step, deadline ratio) in virtual time on the implementation, every case class replayed on real sockets",
    "8 blocking calls x 5 fault patterns (black hole, reply after the per-attempt timeout, garbage, temporary code, truncated) applied from every send of the call onward (sticky) or once, x deadline/timeout ratios <1, =1, >1, plus already-expired contexts. Virtual time makes every point at which the deadline can fall enumerable: the oracle requires no back-off sleep after expiry, a bounded number of immediately-failing transmissions, per-attempt contexts derived from the caller's, an error unless valid responses were delivered, and that the call returns. The same cases are replayed hook-free (DialV2, stock exponential back-off, real timers) over UDP loopback: return <= deadline + 250 ms.",
    "Virtual model: lost reply = per-attempt timeout, sleep = 250 ms quantum. Real replay: quick runs one or two steps per (call, pattern); thorough every step x 4 deadlines; an overrun must repeat 5 times to be reported.",
    "DESIGN.md section 4 C13")
chk("C14", "envx+refbmc",
    "exhaustive enumeration of repositories (<= n records over a shape alphabet, structured to 40) and of modifications injected before every request of the walk",
    "Every repository of <= 2 (thorough 3) records over 25 record shapes (full sensor records with 4 ID-string encodings and lengths 0..max, compact, locator, OEM) x 6 ID layouts (first ID zero/non-zero, ascending, descending, sparse, near 0xFFFE), structured repositories of 1..40 records; then before each request of RetrieveSDRRepository one (thorough: two) of {add, erase first, erase last, reservation cancelled, add within the same second, add with reservation kept, erase last with reservation kept} (timestamps also near 2^31 and FFFFFFFFh); oracle: the result is exactly the full sensor records of one single repository state, no older than the last modification the BMC reported through its timestamps, each keyed by its own ID, every field equal to the reference decoding.",
    "A modification that neither bumps a timestamp nor is followed by a reservation-checked request is undetectable by the protocol; then either neighbouring state is accepted.",
    "DESIGN.md section 4 C14, appendix A.6")
chk("C16", "envx+refbmc",
    "exhaustive enumeration of cipher-suite record lists / instance counts x page sizes through the real paging loops",
    "Cipher suites: every list of <= 2 (thorough 3) records over 32 shapes, lists whose encoding is exactly 16..80 bytes, 1..20 identical records, every total length 1000..1024 bytes (63/64-chunk boundary), malformed data; oracle: exact ordered entries per (integrity, confidentiality) combination, error for malformed data, list index 0,1,2.. in the BMC's log, request count, termination. DCMI: instance counts 0..255 x page sizes 1..8 x 3 entities x {standard IDs, DCMI IDs only, neither, standard IDs answer with an error}; oracle: every record ID in order, instance start 1,1+p,.., DCMI IDs queried iff the standard ones yielded nothing or an error.",
    "Quick thins the DCMI count x page grid away from boundaries.",
    "DESIGN.md section 4 C16")
chk("C18", "histx+udp",
    "exhaustive enumeration of operation histories (depth <= D + structured 60-step + dial histories over UDP) compared with an accounting reference model",
    "All histories of <= 3 operations (thorough: <= 4, and all of 5 that begin with a session open of any kind) over 22 kinds (session opens failing at each step, commands succeeding / failing / retried / expiring / unserialisable, closes succeeding and failing), a 60-step background with each kind inserted at each position, and DialV2 / session / transport-close histories over UDP loopback; every bmc_* counter and gauge delta from prometheus.DefaultGatherer must equal the accounting of what the harness observed (calls, errors returned, transmissions beyond the first, valid responses per code, opens minus closes).",
    "One worker process per shard (the registry is process-global). Histograms are out of scope.",
    "DESIGN.md section 4 C18, appendix A.5")
ENGINES += [
    {"name": "schedx", "path": "harness/checks/c19.go + harness/cmd/instrument + harness/vschedsrc", "serves_properties": ["C19"],
     "kind_free_text": "cooperative scheduler with preemption-bounded DFS over logical threads; scheduling points inserted into the current gebn/bmc sources by a go/ast rewriter through a build overlay (before every statement mentioning a package-level variable) and at transport Send entry/exit; companion free-running -race binary"},
]
chk("C19", "schedx",
    "stateless model checking of the implementation under a controlled scheduler: all interleavings of 2-3 logical threads with <= k preemptions (iterative context bounding)",
    "Each thread has its own connection, session, reference BMC and random stream and runs one of 6 workloads chosen to touch the same package-level state (default-suite discovery handshake, commands, DCMI group-extension path, SDR walk, close, session-less commands). The current /repo sources are instrumented at check time (overlay, /repo untouched) so that the library yields before every statement mentioning any package-level variable; the transport yields at Send entry/exit. All 21 unordered workload pairs are explored with k=1 (quick) / k=2 (thorough), three pairs with k+1, and 3-thread sets; oracle: each thread's results and the raw datagrams its BMC received equal the solo run, and a %#v dump of every package-level variable (Prometheus collectors aside) equals its post-init value. Companion: the same kind of bodies free-running over UDP loopback under the race detector (N=2..16), whose reports are turned into violations.",
    "Sequentially consistent interleavings at the instrumented points only; state inside dependencies and weak-memory effects are left to the race-detector companion (sampled schedules, not the deciding step). A 40-transmission horizon per thread ends disturbed retry loops.",
    "DESIGN.md section 3.4, section 4 C19")

# ---- refinements after the seeded-change rounds (texts only) -----------------
CHECKS["C01"]["text"] += " The options value is also used first for a session to another BMC with another password (the library documents that it does not modify it)."
CHECKS["C02"]["text"] += " Scenarios with 24-byte secrets (BMC holding only the 20-byte prefix) are included."
CHECKS["C03"]["text"] += " Sessions of 150 commands (IV reuse, counters, buffer growth) and caller-defined commands with bodies up to 200 bytes are included; the busy reply of retry alphabets carries a foreign RMCP sequence number."
CHECKS["C04"]["text"] += " Sixteen pad-length-16 forgeries with one wrong byte each; a successful call ending on any truncated reply is a violation."
CHECKS["C05"]["text"] += " Get SDR replies shaped like record headers (every type/length the walk branches on) and record bodies of every length with every ID-string type are part of the protocol-level catalogue."
CHECKS["C06"]["text"] += " Serialise buffers are dirty (stale bytes, as on a used connection); every command is also sent again after a node-busy reply with a foreign RMCP sequence; handshakes are run after four kinds of connection history; caller-defined group-extension / OEM / arbitrary-NetFn commands and multi-byte user names are included."
CHECKS["C07"]["text"] += " Per-layer judged/not-judged counts are reported in the evidence."
CHECKS["C08"]["text"] += " Serialise buffers are dirty, and another wrapper is serialised between a wrapper's serialisation and its comparison."
CHECKS["C09"]["text"] += " The handshake alphabet includes honest replies whose unused wrapper fields are non-zero."
CHECKS["C10"]["text"] += " All 255 completion codes are tried as final answers; the handshake alphabet includes a stale command reply; per-attempt contexts that an earlier timed-out attempt used up are refused by the transport model as by a real socket."
CHECKS["C11"]["text"] += " The event alphabet also has refused (0xD4) replies duplicated or late, node-busy and context expiry; pairs of different DCMI commands are included; k=3 on two-command histories."
CHECKS["C12"]["text"] += " Zero-length (wildcard) algorithm payloads, and establishments preceded by another establishment on the same connection, are included."
CHECKS["C13"]["text"] += " Calls at a later point of an object's life (Close after a failed Close, NewV2Session with 3/4/6 sessions open), a repository that keeps changing, deadline << per-attempt timeout over real sockets, and a real-time watchdog (a call blocked although all its waits are virtual waits on something its context does not bound)."
CHECKS["C14"]["text"] += " Replies are windows of one reused buffer (as with the real transport) and each record's layer bytes are compared after the retrieval."
CHECKS["C15"]["text"] += " One reader is also polled twice with all flag-class pairs."
CHECKS["C16"]["text"] += " Errors after an entity that already yielded record IDs, on each entity and with several codes."
CHECKS["C17"]["text"] += " Snapshots are reflection based (fmt %+v would call promoted String methods and hide fields); the second command may itself be retried transparently."
CHECKS["C18"]["text"] += " 21 operation kinds incl. context ending during back-off, an open failing after the handshake, unsigned and foreign-session replies (a valid response is an authentic one for this session)."
CHECKS["C19"]["text"] += " Ten workloads; odd slots are older BMCs (DCMI entity IDs only, suite 3 only) so process-wide memoisation shows; a workload refused with uncommon completion codes."
CHECKS["C20"]["text"] += " 8-bit strings: all two-byte and the 3/4-byte sequences of high bytes (must not be read as UTF-8)."

# ---- round 3 (texts only) -----------------------------------------------------
ENGINES += [
    {"name": "udpfront", "path": "harness/env/udp.go", "serves_properties": ["C03", "C09", "C10", "C11"],
     "kind_free_text": "the same environment (reference BMC, answer menus, chooser) served on a loopback UDP socket in front of the hook-free DialV2, explored with the same deviation-bounded DFS; every execution is judged by the property's oracles and compared with the in-memory execution of the same choice vector (datagrams received by the BMC and callers' results must be identical) - binds the in-memory socket model to internal/pkg/transport"},
]
CHECKS["C01"]["text"] += " Password, KG and user name also range over eight byte-content kinds (zero bytes at the start/middle/end, all zero, all ones, top bits, white space); every ordered pair of suites (and a diagonal of triples) is opened as several sessions on one connection, closed before re-opening or held open together."
CHECKS["C02"]["text"] += " Seven near-miss (caller secret, BMC secret) pairs: embedded / leading NUL with the BMC holding the prefix, one byte longer, trailing white space, top bit, empty vs one byte, transposed bytes."
CHECKS["C04"]["text"] += " Keyless forgeries with the authenticated flag set (empty / zero / ones AuthCode of each algorithm's length over a plaintext payload); two deviations over the catalogue in the quick tier too (a forgery after a temporary code meets the layers as the retry path left them); the forger answers the last request the BMC understood."
CHECKS["C05"]["text"] += " Paged exchanges against a BMC that fills every cipher-suite list index with a full chunk must end by themselves."
CHECKS["C06"]["text"] += " 130 user names (white space and control characters at the ends, boundary lengths 15..18, multi-byte text) through NewV2Session against a BMC that knows exactly that name."
CHECKS["C07"]["text"] += " ipmi.Message is compared field by field with the reference message parser on every value of every non-checksum byte; every input is additionally decoded into a value that has just decoded each of the layer's other shapes."
CHECKS["C08"]["text"] += " The wrapper's hash has verified (accepted or rejected) one of eight kinds of packet before it signs."
CHECKS["C09"]["text"] += " Zero-length datagrams and rejected replies with non-zero wrapper ID/sequence are in the alphabets; Get Sensor Reading with owner LUN 1 is in the command alphabet. Real-transport replay (engine udpfront): about 2.6k executions (quick) over DialV2 and a loopback socket."
CHECKS["C10"]["text"] += " Real-transport replay as for C09."
CHECKS["C11"]["text"] += " Real-transport replay (engine udpfront): about 3.1k executions (quick) in which delayed replies really arrive after the read deadline and duplicates really wait in the kernel buffer."
CHECKS["C12"]["text"] += " All 64 values of each algorithm field with the other two as proposed; the reference BMC follows through with algorithms only it knows."
CHECKS["C13"]["text"] += " Further patterns: every reply duplicated; a cipher-suite list that fills all 64 indexes. Virtual time also judges a back-off sleep whose context is not derived from the caller's when the deadline falls inside it."
CHECKS["C15"]["text"] += " The record value is reused (overwritten / zeroed) after the reader was built; replies with a normal code and 0..2 data bytes on fresh and used readers."
CHECKS["C17"]["text"] += " Records of a paged list: for every ordered pair of 32 cipher-suite record shapes the entries of the later record equal those it yields alone."
CHECKS["C18"]["text"] += " DialV2 with zero / negative / repeated timeout options. Real-socket histories use 400 ms attempts and report only what repeats."
CHECKS["C19"]["text"] += " Every BMC's repository holds BCD-plus and 6-bit packed sensor names (scheduler and race pass)."
for _p in ("C09", "C10", "C11"):
    CHECKS[_p]["note"] += " Real-transport replay: executions containing the end of the caller's context are excluded (asynchronous for a real socket); a finding must repeat on two further runs; the stage stops at its first confirmed counterexample."

for _p in ("C09", "C10", "C11"):
    CHECKS[_p]["engine"] += "+udpfront"

# ---- round 4 (texts only) -----------------------------------------------------
CHECKS["C01"]["text"] += " Every configuration also sends a command to LUN 1-3; discovery runs against record data of 14 total lengths around the 16-byte chunk boundaries."
CHECKS["C02"]["text"] += " Datagram cuts at every length; a password buffer overwritten in place between two handshakes."
CHECKS["C03"]["text"] += " Real-transport replay (engine udpfront) of single-command sessions."
CHECKS["C03"]["engine"] += "+udpfront"
CHECKS["C04"]["text"] += " Histories that go on after Close; the session under test as the second one on its connection with a reply signed under the first session's K1; a suite whose integrity algorithm the library cannot compute (refusing it is fine)."
CHECKS["C05"]["text"] += " All 255 completion codes on matching replies; DCMI pages whose totals disagree; wrappers followed by 250..494 pad bytes; a process-level watchdog turns a library call that never returns into a violation."
CHECKS["C06"]["text"] += " Requests built by the high-level wrappers (V2Session methods, DCMI session commander, sensor readers over LUN x linearisation) and RAKP Message 1 after an Open Session Response carrying another privilege level."
CHECKS["C07"]["text"] += " Every input also goes through the decoder registered for the layer type (gopacket.NewPacket): a rejected body must leave no such layer in the packet."
CHECKS["C08"]["text"] += " Both wrappers are also decoded through gopacket.NewPacket from RMCP and through a DecodingLayerParser assembled like the root package's (session selector included)."
CHECKS["C10"]["text"] += " Persistence: calls whose every attempt fails retryably, on a connection with the library's default back-off, with virtual deadlines from 5 s to 3 h (the back-off's own clock is virtual too): the call may only return once the context has expired."
CHECKS["C11"]["text"] += " Further socket events: the request echoed back, a busy reply of another command followed by silence, a reply of command 00h of the same network function."
CHECKS["C12"]["text"] += " The Open Session Request must be well-formed at the BMC; advertisements preceded by 3..40 bytes of other records (suite 0 among them), so chunk boundaries fall at every offset."
CHECKS["C13"]["text"] += " Further patterns: 300 integrity-pad bytes after an authenticated-flag wrapper, replies one byte short, zero padding after the cipher-suite records."
CHECKS["C14"]["text"] += " 8-bit names contain high bytes that form UTF-8 sequences."
CHECKS["C16"]["text"] += " Each request of small enumerations is answered node busy once; zero padding after the records is malformed data."
CHECKS["C17"]["text"] += " Session establishment after an earlier establishment (other connection, same options value): the negotiated suite and the proposal must be the same as without it."
CHECKS["C18"]["text"] += " The value of the code label is learned by observation (one response per code) rather than taken from the library's String() or assumed to have a format; it must be non-empty and injective; all 255 codes; the version-agnostic Dial with live and done contexts; a command on a closed connection; a dial without port."
CHECKS["C19"]["text"] += " Slot 0 first closes an earlier connection twice."
CHECKS["C20"]["text"] += " Every ID string also through the Full Sensor Record decoder; entity-instance rendering must name the range the predicates name."

# ---- coverage-guided additions (texts only) ------------------------------------
CHECKS["C05"]["text"] += " Every value of every named wire type goes through its String method, and every successfully decoded layer through fmt (a panic inside a String method is a finding)."
CHECKS["C06"]["text"] += " Also the no-argument wrappers of V2Session, the five capability wrappers of the DCMI commander (session-less and in session) and the session-less wrappers of the connection."
CHECKS["C01"]["text"] += " NewSession (the version-agnostic entry point) is used for part of the discovery cases; describing the session (String/Version/ID) between two commands must leave it usable."
CHECKS["C02"]["note"] += " Thorough: two deviations over the full alphabet from the correct transcript."
CHECKS["C06"]["note"] += " Thorough: Get SDR reservation/record IDs over all 65 536 values and all 65 536 (offset, length) pairs."
CHECKS["C12"]["note"] += " Thorough: a fifth suite joins the universe (325 lists x 32 advertised subsets x 3 layouts)."
CHECKS["C13"]["note"] += " Thorough: virtual deadlines every 250 ms up to 8 s."
CHECKS["C14"]["note"] += " Thorough: three modifications during one call on 1-2 record repositories, two on 4-5 record ones."

# ---- round 5 (texts only) -----------------------------------------------------
CHECKS["C01"]["text"] += " Credentials are cut from one caller buffer with spare capacity (which must stay untouched); a sixth of the cases go on for 270 more commands."
CHECKS["C02"]["text"] += " Variants: the first reply to every setup payload is lost before the mutation applies; suites with integrity None; a KG of twenty zero bytes against a BMC without KG."
CHECKS["C03"]["text"] += " A session of 66 000 commands (initialisation vectors, counters past 2^16)."
CHECKS["C04"]["text"] += " Forgeries also: an IPMI v1.5 wrapper around the message, several pad bytes wrong in ways that cancel; sessions whose BMC-side ID equals the console's."
CHECKS["C05"]["text"] += " Complete handshakes with every value of the privilege byte of the Open Session Response."
CHECKS["C07"]["text"] += " Rejection also for both checksums wrong in ways that cancel in a sum over the message."
CHECKS["C08"]["text"] += " The same bytes are decoded twice by one long-lived layer value."
CHECKS["C09"]["text"] += " BMC-chosen session IDs (top bit, zero byte) and BMC sequence numbering far ahead / wrapping; the suite integrity None + AES; sessions of 1 100 (thorough 66 000) commands."
CHECKS["C10"]["text"] += " Persistence of Close under busy replies, and the persistence cases again over real sockets and timers; a valid reply filling the 512-byte receive buffer exactly."
CHECKS["C11"]["text"] += " A copy of an old reply arriving 1..130 commands later on long-lived connections and sessions; a caller-defined PICMG (group extension, body 00h) command; the context ending during the back-off after a busy stray."
CHECKS["C12"]["text"] += " Every value of the payload-length byte of each algorithm payload of the response (no panic; a session only for the proposed suite); establishment after 63..260 session-less commands on the connection."
CHECKS["C13"]["text"] += " A handshake ending in 'incorrect password' as a call; a reply whose two checksums are wrong in ways that cancel."
CHECKS["C14"]["text"] += " Repository clocks around 2^31 seconds; the BMC's sequence numbering wrapping mid-walk."
CHECKS["C15"]["text"] += " Records of every event/reading type code."
CHECKS["C16"]["text"] += " Enumeration when requests naming the standard entity IDs get no reply at all; discovery over real sockets with byte-identical neighbouring chunks."
CHECKS["C17"]["text"] += " One connection used for session-less commands, discovery, two sessions and an SDR walk in every order up to depth 4 (5 thorough): each result as on a fresh connection, per-session sequence numbers 1,2,3.."
CHECKS["C18"]["text"] += " A first preference refused with status 11h; a retry while the 32-bit sequence counter wraps."
CHECKS["C19"]["text"] += " The goroutines' passwords are sub-slices of one shared credentials buffer."
CHECKS["C20"]["text"] += " Durations up to ten years and the largest time.Duration values saturate at 63 days."
# round 6
CHECKS["C01"]["text"] += " A session goes on after the replies to two of its commands were lost."
CHECKS["C02"]["text"] += " Handshake payloads in a wrapper that claims authentication and carries a junk AuthCode."
CHECKS["C04"]["text"] += " Whole-block pads of one repeated value; correctly signed replies for the byte-reversed, rotated, neighbouring, all-ones and BMC-side session ID."
CHECKS["C07"]["text"] += " Normal completion code with a body cut to every length below the mandatory part, through session-less and in-session SendCommand."
CHECKS["C09"]["text"] += " An RMCP acknowledgement instead of a reply (also over the real socket); a read failing with EHOSTUNREACH instead of a timeout."
CHECKS["C10"]["text"] += " An RMCP acknowledgement instead of a reply; a read failing with EHOSTUNREACH instead of a timeout (inside a session: one transmission, an error)."
CHECKS["C11"]["text"] += " Calls with a context that is cancelled or past its deadline: a nil error must stand for a delivered response."
CHECKS["C12"]["text"] += " NewSession against every advertised set; replies are windows into one reused receive buffer."
CHECKS["C03"]["text"] += " The v1.5-style Get Channel Authentication Capabilities among the command variants."
CHECKS["C14"]["text"] += " Timestamps reaching FFFFFFFFh; reserved bit 5 of the ID string type/length byte."
CHECKS["C16"]["text"] += " Error codes C9/C1/CB/D4/FF from one standard entity while the others have sensors."
CHECKS["C20"]["text"] += " Decoded strings stay put when their input buffer is overwritten."
