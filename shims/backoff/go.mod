module github.com/cenkalti/backoff/v4

go 1.18
