// Package backoff implements backoff algorithms for retrying operations.
//
// Use Retry function for retrying operations that may fail.
// If Retry does not meet your needs,
// copy/paste the function into your project and modify as you wish.
//
// There is also Ticker type similar to time.Ticker.
// You can use it if you need to work with channels.
//
// See Examples section below for usage examples.
package backoff

import "time"

// BackOff is a backoff policy for retrying an operation.
type BackOff interface {
	// NextBackOff returns the duration to wait before retrying the operation,
	// or backoff. Stop to indicate that no more retries should be made.
	//
	// Example usage:
	//
	// 	duration := backoff.NextBackOff();
	// 	if (duration == backoff.Stop) {
	// 		// Do not retry operation.
	// 	} else {
	// 		// Sleep for duration and retry operation.
	// 	}
	//
	NextBackOff() time.Duration

	// Reset to initial state.
	Reset()
}

// Stop indicates that no more retries should be made for use in NextBackOff().
const Stop time.Duration = -1

// ZeroBackOff is a fixed backoff policy whose backoff time is always zero,
// meaning that the operation is retried immediately without waiting, indefinitely.
type ZeroBackOff struct{}

func (b *ZeroBackOff) Reset() {}

func (b *ZeroBackOff) NextBackOff() time.Duration { return 0 }

// StopBackOff is a fixed backoff policy that always returns backoff.Stop for
// NextBackOff(), meaning that the operation should never be retried.
type StopBackOff struct{}

func (b *StopBackOff) Reset() {}

func (b *StopBackOff) NextBackOff() time.Duration { return Stop }

// ConstantBackOff is a backoff policy that always returns the same backoff delay.
// This is in contrast to an exponential backoff policy,
// which returns a delay that grows longer as you call NextBackOff() over and over again.
type ConstantBackOff struct {
	Interval time.Duration
}

func (b *ConstantBackOff) Reset()                     {}
func (b *ConstantBackOff) NextBackOff() time.Duration { return b.Interval }

func NewConstantBackOff(d time.Duration) *ConstantBackOff {
	return &ConstantBackOff{Interval: d}
}
