package backoff

import (
	"math/rand"
	"time"
)

/*
ExponentialBackOff is a backoff implementation that increases the backoff
period for each retry attempt using a randomization function that grows exponentially.

NextBackOff() is calculated using the following formula:

 randomized interval =
     RetryInterval * (random value in range [1 - RandomizationFactor, 1 + RandomizationFactor])

In other words NextBackOff() will range between the randomization factor
percentage below and above the retry interval.

For example, given the following parameters:

 RetryInterval = 2
 RandomizationFactor = 0.5
 Multiplier = 2

the actual backoff period used in the next retry attempt will range between 1 and 3 seconds,
multiplied by the exponential, that is, between 2 and 6 seconds.

Note: MaxInterval caps the RetryInterval and not the randomized interval.

If the time elapsed since an ExponentialBackOff instance is created goes past the
MaxElapsedTime, then the method NextBackOff() starts returning backoff.Stop.

The elapsed time can be reset by calling Reset().

Example: Given the following default arguments, for 10 tries the sequence will be,
and assuming we go over the MaxElapsedTime on the 10th try:

 Request #  RetryInterval (seconds)  Randomized Interval (seconds)

  1          0.5                     [0.25,   0.75]
  2          0.75                    [0.375,  1.125]
  3          1.125                   [0.562,  1.687]
  4          1.687                   [0.8435, 2.53]
  5          2.53                    [1.265,  3.795]
  6          3.795                   [1.897,  5.692]
  7          5.692                   [2.846,  8.538]
  8          8.538                   [4.269, 12.807]
  9         12.807                   [6.403, 19.210]
 10         19.210                   backoff.Stop

Note: Implementation is not thread-safe.
*/
type ExponentialBackOff struct {
	InitialInterval     time.Duration
	RandomizationFactor float64
	Multiplier          float64
	MaxInterval         time.Duration
	// After MaxElapsedTime the ExponentialBackOff returns Stop.
	// It never stops if MaxElapsedTime == 0.
	MaxElapsedTime time.Duration
	Stop           time.Duration
	Clock          Clock

	currentInterval time.Duration
	startTime       time.Time
}

// Clock is an interface that returns current time for BackOff.
type Clock interface {
	Now() time.Time
}

// ExponentialBackOffOpts is a function type used to configure ExponentialBackOff options.
type ExponentialBackOffOpts func(*ExponentialBackOff)

// Default values for ExponentialBackOff.
const (
	DefaultInitialInterval     = 500 * time.Millisecond
	DefaultRandomizationFactor = 0.5
	DefaultMultiplier          = 1.5
	DefaultMaxInterval         = 60 * time.Second
	DefaultMaxElapsedTime      = 15 * time.Minute
)

// NewExponentialBackOff creates an instance of ExponentialBackOff using default values.
func NewExponentialBackOff(opts ...ExponentialBackOffOpts) *ExponentialBackOff {
	b := &ExponentialBackOff{
		InitialInterval:     DefaultInitialInterval,
		RandomizationFactor: DefaultRandomizationFactor,
		Multiplier:          DefaultMultiplier,
		MaxInterval:         DefaultMaxInterval,
		MaxElapsedTime:      DefaultMaxElapsedTime,
		Stop:                Stop,
		Clock:               SystemClock,
	}
	for _, fn := range opts {
		fn(b)
	}
	b.Reset()
	return b
}

// WithInitialInterval sets the initial interval between retries.
func WithInitialInterval(duration time.Duration) ExponentialBackOffOpts {
	return func(ebo *ExponentialBackOff) {
		ebo.InitialInterval = duration
	}
}

// WithRandomizationFactor sets the randomization factor to add jitter to intervals.
func WithRandomizationFactor(randomizationFactor float64) ExponentialBackOffOpts {
	return func(ebo *ExponentialBackOff) {
		ebo.RandomizationFactor = randomizationFactor
	}
}

// WithMultiplier sets the multiplier for increasing the interval after each retry.
func WithMultiplier(multiplier float64) ExponentialBackOffOpts {
	return func(ebo *ExponentialBackOff) {
		ebo.Multiplier = multiplier
	}
}

// WithMaxInterval sets the maximum interval between retries.
func WithMaxInterval(duration time.Duration) ExponentialBackOffOpts {
	return func(ebo *ExponentialBackOff) {
		ebo.MaxInterval = duration
	}
}

// WithMaxElapsedTime sets the maximum total time for retries.
func WithMaxElapsedTime(duration time.Duration) ExponentialBackOffOpts {
	return func(ebo *ExponentialBackOff) {
		ebo.MaxElapsedTime = duration
	}
}

// WithRetryStopDuration sets the duration after which retries should stop.
func WithRetryStopDuration(duration time.Duration) ExponentialBackOffOpts {
	return func(ebo *ExponentialBackOff) {
		ebo.Stop = duration
	}
}

// WithClockProvider sets the clock used to measure time.
func WithClockProvider(clock Clock) ExponentialBackOffOpts {
	return func(ebo *ExponentialBackOff) {
		ebo.Clock = clock
	}
}

type systemClock struct{}

func (t systemClock) Now() time.Time {
	// verif seam (see verif_seam.go): with no hook installed this is upstream behaviour.
	if VerifNow != nil {
		return VerifNow()
	}
	return time.Now()
}

// SystemClock implements Clock interface that uses time.Now().
var SystemClock = systemClock{}

// Reset the interval back to the initial retry interval and restarts the timer.
// Reset must be called before using b.
func (b *ExponentialBackOff) Reset() {
	b.currentInterval = b.InitialInterval
	b.startTime = b.Clock.Now()
}

// NextBackOff calculates the next backoff interval using the formula:
// 	Randomized interval = RetryInterval * (1 ± RandomizationFactor)
func (b *ExponentialBackOff) NextBackOff() time.Duration {
	// Make sure we have not gone over the maximum elapsed time.
	elapsed := b.GetElapsedTime()
	next := getRandomValueFromInterval(b.RandomizationFactor, rand.Float64(), b.currentInterval)
	b.incrementCurrentInterval()
	if b.MaxElapsedTime != 0 && elapsed+next > b.MaxElapsedTime {
		return b.Stop
	}
	return next
}

// GetElapsedTime returns the elapsed time since an ExponentialBackOff instance
// is created and is reset when Reset() is called.
//
// The elapsed time is computed using time.Now().UnixNano(). It is
// safe to call even while the backoff policy is used by a running
// ticker.
func (b *ExponentialBackOff) GetElapsedTime() time.Duration {
	return b.Clock.Now().Sub(b.startTime)
}

// Increments the current interval by multiplying it with the multiplier.
func (b *ExponentialBackOff) incrementCurrentInterval() {
	// Check for overflow, if overflow is detected set the current interval to the max interval.
	if float64(b.currentInterval) >= float64(b.MaxInterval)/b.Multiplier {
		b.currentInterval = b.MaxInterval
	} else {
		b.currentInterval = time.Duration(float64(b.currentInterval) * b.Multiplier)
	}
}

// Returns a random value from the following interval:
// 	[currentInterval - randomizationFactor * currentInterval, currentInterval + randomizationFactor * currentInterval].
func getRandomValueFromInterval(randomizationFactor, random float64, currentInterval time.Duration) time.Duration {
	if randomizationFactor == 0 {
		return currentInterval // make sure no randomness is used when randomizationFactor is 0.
	}
	var delta = randomizationFactor * float64(currentInterval)
	var minInterval = float64(currentInterval) - delta
	var maxInterval = float64(currentInterval) + delta

	// Get a random value from the range [minInterval, maxInterval].
	// The formula used below has a +1 because if the minInterval is 1 and the maxInterval is 3 then
	// we want a 33% chance for selecting either 1, 2 or 3.
	return time.Duration(minInterval + (random * (maxInterval - minInterval + 1)))
}
