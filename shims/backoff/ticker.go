package backoff

import (
	"context"
	"sync"
	"time"
)

// Ticker holds a channel that delivers `ticks' of a clock at times reported by a BackOff.
//
// Ticks will continue to arrive when the previous operation is still running,
// so operations that take a while to fail could run in quick succession.
type Ticker struct {
	C        <-chan time.Time
	c        chan time.Time
	b        BackOff
	ctx      context.Context
	timer    Timer
	stop     chan struct{}
	stopOnce sync.Once
}

// NewTicker returns a new Ticker containing a channel that will send
// the time at times specified by the BackOff argument. Ticker is
// guaranteed to tick at least once.  The channel is closed when Stop
// method is called or BackOff stops. It is not safe to manipulate the
// provided backoff policy (notably calling NextBackOff or Reset)
// while the ticker is running.
func NewTicker(b BackOff) *Ticker {
	return NewTickerWithTimer(b, &defaultTimer{})
}

// NewTickerWithTimer returns a new Ticker with a custom timer.
// A default timer that uses system timer is used when nil is passed.
func NewTickerWithTimer(b BackOff, timer Timer) *Ticker {
	if timer == nil {
		timer = &defaultTimer{}
	}
	c := make(chan time.Time)
	t := &Ticker{
		C:     c,
		c:     c,
		b:     b,
		ctx:   getContext(b),
		timer: timer,
		stop:  make(chan struct{}),
	}
	t.b.Reset()
	go t.run()
	return t
}

// Stop turns off a ticker. After Stop, no more ticks will be sent.
func (t *Ticker) Stop() {
	t.stopOnce.Do(func() { close(t.stop) })
}

func (t *Ticker) run() {
	c := t.c
	defer close(c)

	// Ticker is guaranteed to tick at least once.
	afterC := t.send(time.Now())

	for {
		if afterC == nil {
			return
		}

		select {
		case tick := <-afterC:
			afterC = t.send(tick)
		case <-t.stop:
			t.c = nil // Prevent future ticks from being sent to the channel.
			return
		case <-t.ctx.Done():
			return
		}
	}
}

func (t *Ticker) send(tick time.Time) <-chan time.Time {
	select {
	case t.c <- tick:
	case <-t.stop:
		return nil
	}

	next := t.b.NextBackOff()
	if next == Stop {
		t.Stop()
		return nil
	}

	t.timer.Start(next)
	return t.timer.C()
}
