package backoff

import "time"

/*
WithMaxRetries creates a wrapper around another BackOff, which will
return Stop if NextBackOff() has been called too many times since
the last time Reset() was called

Note: Implementation is not thread-safe.
*/
func WithMaxRetries(b BackOff, max uint64) BackOff {
	return &backOffTries{delegate: b, maxTries: max}
}

type backOffTries struct {
	delegate BackOff
	maxTries uint64
	numTries uint64
}

func (b *backOffTries) NextBackOff() time.Duration {
	if b.maxTries == 0 {
		return Stop
	}
	if b.maxTries > 0 {
		if b.maxTries <= b.numTries {
			return Stop
		}
		b.numTries++
	}
	return b.delegate.NextBackOff()
}

func (b *backOffTries) Reset() {
	b.numTries = 0
	b.delegate.Reset()
}
