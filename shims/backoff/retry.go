package backoff

import (
	"errors"
	"time"
)

// An OperationWithData is executing by RetryWithData() or RetryNotifyWithData().
// The operation will be retried using a backoff policy if it returns an error.
type OperationWithData[T any] func() (T, error)

// An Operation is executing by Retry() or RetryNotify().
// The operation will be retried using a backoff policy if it returns an error.
type Operation func() error

func (o Operation) withEmptyData() OperationWithData[struct{}] {
	return func() (struct{}, error) {
		return struct{}{}, o()
	}
}

// Notify is a notify-on-error function. It receives an operation error and
// backoff delay if the operation failed (with an error).
//
// NOTE that if the backoff policy stated to stop retrying,
// the notify function isn't called.
type Notify func(error, time.Duration)

// Retry the operation o until it does not return error or BackOff stops.
// o is guaranteed to be run at least once.
//
// If o returns a *PermanentError, the operation is not retried, and the
// wrapped error is returned.
//
// Retry sleeps the goroutine for the duration returned by BackOff after a
// failed operation returns.
func Retry(o Operation, b BackOff) error {
	return RetryNotify(o, b, nil)
}

// RetryWithData is like Retry but returns data in the response too.
func RetryWithData[T any](o OperationWithData[T], b BackOff) (T, error) {
	return RetryNotifyWithData(o, b, nil)
}

// RetryNotify calls notify function with the error and wait duration
// for each failed attempt before sleep.
func RetryNotify(operation Operation, b BackOff, notify Notify) error {
	return RetryNotifyWithTimer(operation, b, notify, nil)
}

// RetryNotifyWithData is like RetryNotify but returns data in the response too.
func RetryNotifyWithData[T any](operation OperationWithData[T], b BackOff, notify Notify) (T, error) {
	return doRetryNotify(operation, b, notify, nil)
}

// RetryNotifyWithTimer calls notify function with the error and wait duration using the given Timer
// for each failed attempt before sleep.
// A default timer that uses system timer is used when nil is passed.
func RetryNotifyWithTimer(operation Operation, b BackOff, notify Notify, t Timer) error {
	_, err := doRetryNotify(operation.withEmptyData(), b, notify, t)
	return err
}

// RetryNotifyWithTimerAndData is like RetryNotifyWithTimer but returns data in the response too.
func RetryNotifyWithTimerAndData[T any](operation OperationWithData[T], b BackOff, notify Notify, t Timer) (T, error) {
	return doRetryNotify(operation, b, notify, t)
}

func doRetryNotify[T any](operation OperationWithData[T], b BackOff, notify Notify, t Timer) (T, error) {
	var (
		err  error
		next time.Duration
		res  T
	)
	if t == nil {
		t = &defaultTimer{}
	}

	defer func() {
		t.Stop()
	}()

	ctx := getContext(b)

	b.Reset()
	for {
		res, err = operation()
		if err == nil {
			return res, nil
		}

		var permanent *PermanentError
		if errors.As(err, &permanent) {
			return res, permanent.Err
		}

		if next = b.NextBackOff(); next == Stop {
			if cerr := ctx.Err(); cerr != nil {
				return res, cerr
			}

			return res, err
		}

		if notify != nil {
			notify(err, next)
		}

		// verif seam (the only change against upstream v4.3.0, see verif_seam.go):
		// with no hook installed this is upstream behaviour.
		if VerifSleep != nil && VerifSleep(ctx, next) {
			if cerr := ctx.Err(); cerr != nil {
				return res, cerr
			}
			continue
		}

		t.Start(next)

		select {
		case <-ctx.Done():
			return res, ctx.Err()
		case <-t.C():
		}
	}
}

// PermanentError signals that the operation should not be retried.
type PermanentError struct {
	Err error
}

func (e *PermanentError) Error() string {
	return e.Err.Error()
}

func (e *PermanentError) Unwrap() error {
	return e.Err
}

func (e *PermanentError) Is(target error) bool {
	_, ok := target.(*PermanentError)
	return ok
}

// Permanent wraps the given err in a *PermanentError.
func Permanent(err error) error {
	if err == nil {
		return nil
	}
	return &PermanentError{
		Err: err,
	}
}
