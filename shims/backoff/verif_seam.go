package backoff

import (
	"context"
	"time"
)

// VerifSleep is a seam added by the verification harness in /verif (it is not
// part of upstream cenkalti/backoff v4.3.0). When non-nil it is called instead
// of starting the retry timer; if it returns true the sleep is considered done
// (the harness has charged d to its virtual clock and may have cancelled ctx),
// and the retry loop re-checks ctx deterministically. When nil, or when it
// returns false, behaviour is exactly upstream's.
var VerifSleep func(ctx context.Context, d time.Duration) bool

// VerifNow is the second seam: when non-nil it replaces time.Now() as the
// SystemClock that ExponentialBackOff measures its elapsed time with, so that
// the harness's virtual clock (advanced by lost replies and back-off sleeps)
// also drives MaxElapsedTime. When nil, behaviour is exactly upstream's.
var VerifNow func() time.Time
