package backoff

import "time"

type Timer interface {
	Start(duration time.Duration)
	Stop()
	C() <-chan time.Time
}

// defaultTimer implements Timer interface using time.Timer
type defaultTimer struct {
	timer *time.Timer
}

// C returns the timers channel which receives the current time when the timer fires.
func (t *defaultTimer) C() <-chan time.Time {
	return t.timer.C
}

// Start starts the timer to fire after the given duration
func (t *defaultTimer) Start(duration time.Duration) {
	if t.timer == nil {
		t.timer = time.NewTimer(duration)
	} else {
		t.timer.Reset(duration)
	}
}

// Stop is called when the timer is not used anymore and resources may be freed.
func (t *defaultTimer) Stop() {
	if t.timer != nil {
		t.timer.Stop()
	}
}
