package backoff

import (
	"context"
	"time"
)

// BackOffContext is a backoff policy that stops retrying after the context
// is canceled.
type BackOffContext interface { // nolint: golint
	BackOff
	Context() context.Context
}

type backOffContext struct {
	BackOff
	ctx context.Context
}

// WithContext returns a BackOffContext with context ctx
//
// ctx must not be nil
func WithContext(b BackOff, ctx context.Context) BackOffContext { // nolint: golint
	if ctx == nil {
		panic("nil context")
	}

	if b, ok := b.(*backOffContext); ok {
		return &backOffContext{
			BackOff: b.BackOff,
			ctx:     ctx,
		}
	}

	return &backOffContext{
		BackOff: b,
		ctx:     ctx,
	}
}

func getContext(b BackOff) context.Context {
	if cb, ok := b.(BackOffContext); ok {
		return cb.Context()
	}
	if tb, ok := b.(*backOffTries); ok {
		return getContext(tb.delegate)
	}
	return context.Background()
}

func (b *backOffContext) Context() context.Context {
	return b.ctx
}

func (b *backOffContext) NextBackOff() time.Duration {
	select {
	case <-b.ctx.Done():
		return Stop
	default:
		return b.BackOff.NextBackOff()
	}
}
