// Package vsched is the seam between instrumented gebn/bmc code and the
// verification harness's scheduler. It is added to the module as the virtual
// package github.com/gebn/bmc/pkg/vsched through `go build -overlay` when the
// C19 check is built; it is not part of gebn/bmc.
package vsched

import (
	"sort"
	"strings"
)

var hook func(loc string)

// Point is called by instrumented code before every statement that mentions a
// package-level variable. Without a hook it does nothing.
func Point(loc string) {
	if h := hook; h != nil {
		h(loc)
	}
}

// SetHook installs (or removes, with nil) the scheduler's yield function.
func SetHook(f func(string)) { hook = f }

var dumps = map[string]func() string{}

// RegisterDump registers a function rendering a package's package-level variables.
func RegisterDump(pkg string, f func() string) { dumps[pkg] = f }

// Dump renders all registered packages' variables.
func Dump() string {
	var ks []string
	for k := range dumps {
		ks = append(ks, k)
	}
	sort.Strings(ks)
	var b strings.Builder
	for _, k := range ks {
		b.WriteString(k + ":" + dumps[k]() + "\n")
	}
	return b.String()
}

// Packages lists the registered packages.
func Packages() []string {
	var ks []string
	for k := range dumps {
		ks = append(ks, k)
	}
	sort.Strings(ks)
	return ks
}
