package checks

import (
	"context"
	"encoding/json"
	"fmt"
	"math"
	"sort"
	"strings"
	"time"

	"github.com/cenkalti/backoff/v4"
	"github.com/gebn/bmc"
	"github.com/gebn/bmc/pkg/ipmi"
	"github.com/prometheus/client_golang/prometheus"

	"verif/env"
	"verif/ref"
	"verif/rep"
)

// C18: exported metrics account exactly for what happened.

func init() {
	register(&Check{ID: "C18", Run: runC18, Shards: 16, MinOutcomes: 3})
	Replayers["c18"] = func(raw json.RawMessage) (string, bool) {
		var c c18Case
		json.Unmarshal(raw, &c)
		k, msg := c18One(c)
		return fmt.Sprintf("%v: %s %s", c18Names(c.Ops), k, msg), k != ""
	}
}

type c18Case struct {
	Ops  []int `json:"ops"`
	Real bool  `json:"real"`
}

const (
	kNSOk = iota
	kNSFailStatus
	kNSFailPassword
	kNSFailICV
	kNSDiscoveryOk
	kNSNoSuite
	kCmdOk
	kCmdC1
	kCmdNoBodyC1
	kCmdBusyOk
	kCmdBusyBusyOk
	kCmdGarbageOk
	kCmdLost
	kCmdCtxExpire
	kCmdUnserialisable
	kCmdTruncated
	kCloseOk
	kCloseFail
	kCmdExpireInBackoff
	kNSFailAfterHandshake
	kCmdUnsignedThenOk
	kCmdForeignSessionThenOk
	kNumOps
)

var c18OpNames = []string{"new-session-ok", "new-session-fail-status", "new-session-fail-password", "new-session-fail-icv", "new-session-discovery-ok", "new-session-no-supported-suite",
	"cmd-ok", "cmd-code-c1-body-missing", "cmd-nobody-code-c1", "cmd-busy-then-ok", "cmd-busy-busy-ok", "cmd-garbage-then-ok", "cmd-lost-reply", "cmd-context-expires", "cmd-unserialisable", "cmd-truncated-body", "close-ok", "close-fail", "cmd-context-ends-during-backoff", "new-session-fail-after-handshake", "cmd-unsigned-reply-then-ok", "cmd-foreign-session-reply-then-ok"}

// real-socket op codes
const (
	rDialOk = 100 + iota
	rDialFail
	rCmdOk
	rCmdLostThenOk
	rTransportClose
	rNSOk
	rSessClose
	rDialZeroTimeoutClose
	rDialNegTimeoutClose
	rDialTwoOptionsClose
	rDialAnyLiveCtxClose
	rDialAnyDoneCtxClose
	rCmdOnClosedConn
	rDialNoPortClose
)

var c18RealNames = map[int]string{rDialOk: "dial-ok", rDialFail: "dial-fail", rCmdOk: "cmd-ok", rCmdLostThenOk: "cmd-lost-then-ok", rTransportClose: "transport-close", rNSOk: "new-session-ok", rSessClose: "session-close", rDialZeroTimeoutClose: "dial-with-zero-timeout-then-close", rDialNegTimeoutClose: "dial-with-negative-timeout-then-close", rDialTwoOptionsClose: "dial-with-two-options-then-close", rDialAnyLiveCtxClose: "version-agnostic-dial-then-close", rDialAnyDoneCtxClose: "version-agnostic-dial-with-a-done-context-then-close", rCmdOnClosedConn: "dial-close-then-command-on-the-closed-connection", rDialNoPortClose: "dial-address-without-port-then-close"}

func c18Names(ops []int) []string {
	var out []string
	for _, o := range ops {
		if o == 2000 {
			out = append(out, "new-session-first-preference-refused-with-status-11")
		} else if o == 2001 {
			out = append(out, "cmd-busy-then-ok-while-the-sequence-counter-wraps")
		} else if o >= 1000 {
			out = append(out, fmt.Sprintf("cmd-answered-with-code-%#02x", o-1000))
		} else if o < len(c18OpNames) {
			out = append(out, c18OpNames[o])
		} else {
			out = append(out, c18RealNames[o])
		}
	}
	return out
}

func init() {
	// the default registry also carries the Go runtime and process collectors;
	// they are not the library's and reading them (ReadMemStats, /proc) on every
	// gather costs far more than the library's own metrics
	prometheus.Unregister(prometheus.NewGoCollector())
	prometheus.Unregister(prometheus.NewProcessCollector(prometheus.ProcessCollectorOpts{}))
}

// gather reads every bmc_* counter and gauge into a flat map.
func gather() (map[string]float64, error) {
	mfs, err := prometheus.DefaultGatherer.Gather()
	if err != nil {
		return nil, err
	}
	out := map[string]float64{}
	for _, mf := range mfs {
		name := mf.GetName()
		if !strings.HasPrefix(name, "bmc_") {
			continue
		}
		for _, m := range mf.GetMetric() {
			var ls []string
			for _, l := range m.GetLabel() {
				v := l.GetValue()
				ls = append(ls, l.GetName()+"="+v)
			}
			key := name + "{" + strings.Join(ls, ",") + "}"
			switch {
			case m.GetCounter() != nil:
				out[key] = m.GetCounter().GetValue()
			case m.GetGauge() != nil:
				out[key] = m.GetGauge().GetValue()
			}
		}
	}
	return out, nil
}

type expect map[string]float64

func (e expect) add(k string, v float64) { e[k] += v }

// free marks a series whose change the property does not determine in this
// history (not compared).
func (e expect) free(k string) { e[k] = math.NaN() }

// account adds what one SendCommand call must contribute, from the harness's
// own observations: its name, the transmissions made, the valid responses
// (with their codes) the environment delivered, and whether it returned an error.
func (e expect) account(name string, transmissions int, codes []byte, failed bool) {
	e.add("bmc_command_attempts_total{command="+name+"}", 1)
	if transmissions > 1 {
		e.add("bmc_command_retries_total{}", float64(transmissions-1))
	}
	for _, c := range codes {
		e.add("bmc_command_responses_total{code="+c18Label(c)+"}", 1)
	}
	if failed {
		e.add("bmc_command_failures_total{command="+name+"}", 1)
	}
}

// c18Labels: which value of the "code" label the library counts each
// completion code under. It is learned by observation (one response per code
// on a scratch connection), not taken from the library's String method and not
// assumed to have a particular format; what is demanded of it is that it is
// non-empty and different for different codes, so that "responses per
// completion code" can be read off the metric at all.
var c18Labels map[byte]string
var c18LabelProblem string

func c18Label(c byte) string {
	if c18Labels == nil {
		c18Calibrate()
	}
	return c18Labels[c]
}

func c18Calibrate() {
	c18Labels = map[byte]string{}
	cfg := histConfig(ref.Suite{Auth: 1, Integ: 1, Conf: 1})
	w := newWorld(cfg, nil, nil)
	risen := func(before, after map[string]float64) []string {
		var out []string
		for k, v := range after {
			if strings.HasPrefix(k, "bmc_command_responses_total{code=") && v > before[k] {
				out = append(out, strings.TrimSuffix(strings.TrimPrefix(k, "bmc_command_responses_total{code="), "}"))
			}
		}
		sort.Strings(out)
		return out
	}
	seen := map[string]byte{}
	for cc := 0; cc < 256; cc++ {
		first := true
		w.T.Menu = func(t *env.Transport, req []byte) []env.Answer {
			if first {
				first = false
				return []env.Answer{env.Code("code", byte(cc))}
			}
			return []env.Answer{env.Honest()}
		}
		before, _ := gather()
		w.T.BeginOp()
		guard(func() { w.Conn.SendCommand(w.Ctx, &ipmi.GetSystemGUIDCmd{}) })
		after, _ := gather()
		var ls []string
		for _, l := range risen(before, after) {
			if cc != 0 && l == c18Labels[0] {
				continue // the honest reply that followed a temporary code
			}
			ls = append(ls, l)
		}
		switch {
		case len(ls) != 1:
			if c18LabelProblem == "" {
				c18LabelProblem = fmt.Sprintf("a valid response with completion code %#02x raised %d series of bmc_command_responses_total (%q), want exactly one", cc, len(ls), ls)
			}
		case ls[0] == "":
			if c18LabelProblem == "" {
				c18LabelProblem = fmt.Sprintf("a valid response with completion code %#02x is counted under an empty code label", cc)
			}
			c18Labels[byte(cc)] = ls[0]
		default:
			if prev, dup := seen[ls[0]]; dup && c18LabelProblem == "" {
				c18LabelProblem = fmt.Sprintf("completion codes %#02x and %#02x are counted under the same label %q", prev, cc, ls[0])
			}
			seen[ls[0]] = byte(cc)
			c18Labels[byte(cc)] = ls[0]
		}
	}
}

func c18One(c c18Case) (string, string) {
	if c18Labels == nil {
		c18Calibrate()
	}
	if c18LabelProblem != "" {
		return "C18/bmc_command_responses_total/code-label", c18LabelProblem
	}
	if c.Real {
		return c18Real(c)
	}
	cfg := histConfig(ref.Suite{Auth: 1, Integ: 1, Conf: 1})
	w := newWorld(cfg, nil, nil)
	before, err := gather()
	if err != nil {
		return "C18/harness", err.Error()
	}
	exp := expect{}
	var sess *bmc.V2Session
	// script of answers for the next sends; empty = honest
	var script []env.Answer
	var codesSeen []byte
	tx := 0
	w.T.Menu = func(t *env.Transport, req []byte) []env.Answer {
		tx++
		a := env.Honest()
		if len(script) > 0 {
			a, script = script[0], script[1:]
		}
		inner := a.Apply
		a.Apply = func(t *env.Transport, rx *ref.Rx) {
			before := len(t.Queue)
			if inner != nil {
				inner(t, rx)
			}
			// a valid response message delivered: record its completion code
			for _, d := range t.Queue[before:] {
				if cc, ok := c18ValidResponse(t, rx, d.B); ok {
					codesSeen = append(codesSeen, cc)
				}
			}
		}
		return []env.Answer{a}
	}
	garbage := env.Raw("garbage", func(t *env.Transport, rx *ref.Rx) []byte { return []byte{6, 0, 0xFF} })
	busy := env.Code("busy", 0xC0)
	runCmd := func(name string, cmd ipmi.Command, ans []env.Answer, expire bool) {
		script, codesSeen, tx = ans, nil, 0
		var conn bmc.Connection = w.Conn
		if sess != nil {
			conn = sess
		}
		ctx := w.Ctx
		if expire {
			var cancel context.CancelFunc
			ctx, cancel = newCtx()
			script = []env.Answer{{Name: "expire", Apply: func(t *env.Transport, rx *ref.Rx) { cancel() }}}
		}
		_, err := conn.SendCommand(ctx, cmd)
		exp.account(name, tx, codesSeen, err != nil)
		script = nil
	}
	for _, op := range c.Ops {
		switch op {
		case kCmdUnsignedThenOk, kCmdForeignSessionThenOk:
			forged := env.Raw("forged", func(t *env.Transport, rx *ref.Rx) []byte {
				if rx == nil || rx.Msg == nil {
					return nil
				}
				msg := ref.ResponseTo(rx.Msg, 0xD4, nil)
				if rx.Sess == nil || !rx.Sess.Active {
					return ref.BuildPacket(ref.PTIPMI, false, 0, 0, []byte{1, 2, 3}, nil) // not a message: undecodable
				}
				sx := rx.Sess
				sx.OutSeq++
				if op == kCmdUnsignedThenOk {
					return ref.BuildPacket(ref.PTIPMI, false, sx.HS.SIDM, sx.OutSeq, msg, nil)
				}
				return ref.BuildPacket(ref.PTIPMI, true, sx.HS.SIDM+5, sx.OutSeq, ref.AESEncrypt(sx.K2, sx.NextIV(), msg), sx.Integ)
			})
			runCmd("Get Chassis Status", &ipmi.GetChassisStatusCmd{}, []env.Answer{forged}, false)
		case kNSOk, kNSFailStatus, kNSFailPassword, kNSFailICV, kNSDiscoveryOk, kNSNoSuite, kNSFailAfterHandshake:
			if sess != nil {
				continue
			}
			opts := &bmc.V2SessionOpts{SessionOpts: bmc.SessionOpts{Username: "c18", Password: cfg.Password, MaxPrivilegeLevel: ipmi.PrivilegeLevelUser}, CipherSuites: []ipmi.CipherSuite{ipmi.CipherSuite3}}
			script, codesSeen, tx = nil, nil, 0
			mut := func(pt byte, f func([]byte) []byte) env.Answer {
				return env.Raw("mutated", func(t *env.Transport, rx *ref.Rx) []byte {
					return ref.BuildPacket(rx.ReplyPType, false, 0, 0, f(append([]byte{}, rx.ReplyPayload...)), nil)
				})
			}
			switch op {
			case kNSFailStatus:
				script = []env.Answer{mut(0, func(p []byte) []byte { p[1] = 0x01; return p[:8] })}
			case kNSFailPassword:
				opts.Password = []byte("wrong")
			case kNSFailICV:
				script = []env.Answer{env.Honest(), env.Honest(), mut(0, func(p []byte) []byte { p[len(p)-1] ^= 1; return p })}
			case kNSDiscoveryOk:
				opts.CipherSuites = nil
			case kNSNoSuite:
				opts.CipherSuites = []ipmi.CipherSuite{suiteOf(ref.Suite{Auth: 2, Integ: 2, Conf: 1}), suiteOf(ref.Suite{Auth: 2, Integ: 3, Conf: 1})}
			case kNSFailAfterHandshake:
				// the handshake completes, then the library cannot build its layers
				opts.CipherSuites = []ipmi.CipherSuite{suiteOf(ref.Suite{Auth: 1, Integ: 1, Conf: 0})}
			}
			s, err := w.Conn.NewV2Session(w.Ctx, opts)
			exp.add("bmc_session_open_attempts_total{}", 1)
			if err != nil {
				exp.add("bmc_session_open_failures_total{}", 1)
			} else {
				exp.add("bmc_sessions_open{}", 1)
				sess = s
			}
			if op == kNSDiscoveryOk || op == kNSNoSuite {
				// discovery issues one Get Channel Cipher Suites call per page, all honest here
				pages := len(cfg.CipherSuiteData)/16 + 1
				for i := 0; i < pages; i++ {
					exp.account("Get Channel Cipher Suites", 1, []byte{0}, false)
				}
			}
			script = nil
		case kCmdOk:
			runCmd("Get Device ID", &ipmi.GetDeviceIDCmd{}, nil, false)
		case kCmdC1:
			runCmd("Get Device ID", &ipmi.GetDeviceIDCmd{}, []env.Answer{env.Code("c1", 0xC1)}, false)
		case 2000:
			// a preference list whose first choice the BMC refuses in its Open Session
			// Response (status 11h, unsupported cipher suite): one open was tried
			if sess != nil {
				continue
			}
			opts := &bmc.V2SessionOpts{SessionOpts: bmc.SessionOpts{Username: "c18", Password: cfg.Password, MaxPrivilegeLevel: ipmi.PrivilegeLevelUser}, CipherSuites: []ipmi.CipherSuite{ipmi.CipherSuite17, ipmi.CipherSuite3}}
			refused := false
			script, codesSeen, tx = nil, nil, 0
			prevMenu := w.T.Menu
			w.T.Menu = func(t *env.Transport, req []byte) []env.Answer {
				if len(req) > 5 && req[5]&0x3f == ref.PTOpenReq && !refused {
					refused = true
					return []env.Answer{env.Raw("refused-11", func(t *env.Transport, rx *ref.Rx) []byte {
						p := append([]byte{}, rx.ReplyPayload[:8]...)
						p[1] = 0x11
						return ref.BuildPacket(rx.ReplyPType, false, 0, 0, p, nil)
					})}
				}
				return prevMenu(t, req)
			}
			sN, err := w.Conn.NewV2Session(w.Ctx, opts)
			w.T.Menu = prevMenu
			exp.add("bmc_session_open_attempts_total{}", 1)
			if err != nil {
				exp.add("bmc_session_open_failures_total{}", 1)
			} else {
				exp.add("bmc_sessions_open{}", 1)
				sess = sN
			}
			for i := 0; i < len(cfg.CipherSuiteData)/16+1; i++ {
				exp.account("Get Channel Cipher Suites", 1, []byte{0}, false)
			}
		case 2001:
			// the session's sequence counter is about to wrap while a command is retried
			if sess == nil {
				continue
			}
			sess.AuthenticatedSequenceNumbers.Inbound = 0xFFFFFFFE
			runCmd("Get Chassis Status", &ipmi.GetChassisStatusCmd{}, []env.Answer{busy}, false)
		case -1:
			// op codes 1000+cc: a command answered with completion code cc
		default:
			if op >= 1000 && op < 1256 {
				runCmd("Chassis Control", &ipmi.ChassisControlCmd{}, []env.Answer{env.Code("code", byte(op-1000))}, false)
			}
		case kCmdNoBodyC1:
			runCmd("Chassis Control", &ipmi.ChassisControlCmd{}, []env.Answer{env.Code("c1", 0xC1)}, false)
		case kCmdBusyOk:
			runCmd("Get Chassis Status", &ipmi.GetChassisStatusCmd{}, []env.Answer{busy}, false)
		case kCmdBusyBusyOk:
			runCmd("Get System GUID", &ipmi.GetSystemGUIDCmd{}, []env.Answer{busy, env.Code("timeout-code", 0xC3)}, false)
		case kCmdGarbageOk:
			runCmd("Get Device ID", &ipmi.GetDeviceIDCmd{}, []env.Answer{garbage}, false)
		case kCmdLost:
			runCmd("Get Device ID", &ipmi.GetDeviceIDCmd{}, []env.Answer{env.LostReply()}, false)
		case kCmdCtxExpire:
			runCmd("Get Chassis Status", &ipmi.GetChassisStatusCmd{}, nil, true)
		case kCmdExpireInBackoff:
			// the reply is garbage (retryable everywhere); the caller's context ends
			// while the library waits before the retransmission: no retry is made
			cctx, cancel := newCtx()
			saved := w.Ctx
			w.Ctx = cctx
			backoff.VerifSleep = func(ctx context.Context, d time.Duration) bool { cancel(); return true }
			runCmd("Get System GUID", &ipmi.GetSystemGUIDCmd{}, []env.Answer{garbage}, false)
			backoff.VerifSleep = w.T.Sleep
			w.Ctx = saved
		case kCmdUnserialisable:
			runCmd("Set Session Privilege Level", &ipmi.SetSessionPrivilegeLevelCmd{Req: ipmi.SetSessionPrivilegeLevelReq{PrivilegeLevel: ipmi.PrivilegeLevelCallback}}, nil, false)
		case kCmdTruncated:
			runCmd("Get Device ID", &ipmi.GetDeviceIDCmd{}, []env.Answer{env.Raw("truncated", func(t *env.Transport, rx *ref.Rx) []byte { return t.BMC.Respond(rx, 0, rx.Body[:5]) })}, false)
		case kCloseOk, kCloseFail:
			if sess == nil {
				continue
			}
			script, codesSeen, tx = nil, nil, 0
			if op == kCloseFail {
				script = []env.Answer{env.Code("invalid-session", 0x87)}
			}
			err := sess.Close(w.Ctx)
			// Close Session has no response body, so the command itself only
			// fails on transport/decode problems; a non-normal code is not a failure
			exp.account("Close Session", tx, codesSeen, false)
			_ = err
			exp.add("bmc_sessions_open{}", -1)
			sess = nil
			script = nil
		}
	}
	after, err := gather()
	if err != nil {
		return "C18/harness", err.Error()
	}
	return c18Compare(before, after, exp, c18Names(c.Ops))
}

// c18ValidResponse reports whether datagram d is a valid response message
// for rx's session context, and its completion code.
func c18ValidResponse(t *env.Transport, rx *ref.Rx, d []byte) (byte, bool) {
	if rx == nil || rx.Msg == nil {
		return 0, false
	}
	authLen := 0
	if rx.Sess != nil && rx.Sess.Active {
		authLen = rx.Sess.IntegN
	}
	p, err := ref.ParsePacket(d, authLen)
	if err != nil || p.PType != ref.PTIPMI {
		return 0, false
	}
	if rx.Sess != nil && rx.Sess.Active {
		// in a session only an authentic packet for the console's session ID is a valid response
		if p.SID != rx.Sess.HS.SIDM {
			return 0, false
		}
		if rx.Sess.Integ != nil {
			if !p.Authed || string(rx.Sess.Integ(p.AuthRange)) != string(p.AuthCode) {
				return 0, false
			}
		}
	}
	plain := p.Payload
	if p.Encrypted {
		if rx.Sess == nil {
			return 0, false
		}
		pl, _, err := ref.AESDecrypt(rx.Sess.K2, p.Payload)
		if err != nil {
			return 0, false
		}
		plain = pl
	}
	m, err := ref.ParseMsg(plain)
	if err != nil || len(m.Data) < 1 {
		return 0, false
	}
	return m.Data[0], true
}

func c18Compare(before, after map[string]float64, exp expect, ops []string) (string, string) {
	keys := map[string]bool{}
	for k := range before {
		keys[k] = true
	}
	for k := range after {
		keys[k] = true
	}
	for k := range exp {
		keys[k] = true
	}
	var ks []string
	for k := range keys {
		ks = append(ks, k)
	}
	sort.Strings(ks)
	for _, k := range ks {
		if strings.HasPrefix(k, "bmc_transport_") || strings.HasPrefix(k, "bmc_command_duration") {
			continue
		}
		delta := after[k] - before[k]
		if math.IsNaN(exp[k]) {
			continue
		}
		if delta != exp[k] {
			name := k
			if i := strings.Index(name, "{"); i > 0 {
				name = name[:i]
			}
			return "C18/" + name, fmt.Sprintf("history %v: %s changed by %v, what happened accounts for %v", ops, k, delta, exp[k])
		}
	}
	return "", ""
}

// c18RealTimeout is the per-attempt timeout of real-socket histories: long
// enough that a loopback reply is never late on a loaded machine (a late reply
// would cause a retransmission the accounting does not expect).
const c18RealTimeout = 400 * time.Millisecond

// c18Real: histories with DialV2 / transport Close over UDP loopback.
func c18Real(c c18Case) (string, string) {
	backoff.VerifSleep = func(ctx context.Context, d time.Duration) bool { return true }
	u, err := newUDPBMC(c13Config())
	if err != nil {
		return "C18/harness", err.Error()
	}
	defer u.close()
	before, err := gather()
	if err != nil {
		return "C18/harness", err.Error()
	}
	exp := expect{}
	var conns []*bmc.V2SessionlessTransport
	var sess *bmc.V2Session
	ctx, cancel := context.WithTimeout(context.Background(), 5*time.Second)
	defer cancel()
	for _, op := range c.Ops {
		switch op {
		case rDialOk:
			conn, err := bmc.DialV2(u.addr(), bmc.WithTimeout(c18RealTimeout))
			exp.add("bmc_connection_open_attempts_total{version=2.0}", 1)
			if err != nil {
				exp.add("bmc_connection_open_failures_total{version=2.0}", 1)
			} else {
				exp.add("bmc_connections_open{version=2.0}", 1)
				conns = append(conns, conn)
			}
		case rDialZeroTimeoutClose, rDialNegTimeoutClose, rDialTwoOptionsClose, rDialNoPortClose:
			// unusual option values: whatever DialV2 makes of them, the accounting
			// must follow what it returned
			opts := []bmc.DialConfigOption{bmc.WithTimeout(0)}
			addr := u.addr()
			if op == rDialNoPortClose {
				// no port in the address: the default port is used; a UDP "connection" needs no peer
				opts, addr = nil, "127.0.0.1"
			}
			if op == rDialNegTimeoutClose {
				opts = []bmc.DialConfigOption{bmc.WithTimeout(-time.Second)}
			} else if op == rDialTwoOptionsClose {
				opts = []bmc.DialConfigOption{bmc.WithTimeout(time.Hour), bmc.WithTimeout(time.Nanosecond)}
			}
			conn, err := bmc.DialV2(addr, opts...)
			exp.add("bmc_connection_open_attempts_total{version=2.0}", 1)
			if err != nil {
				exp.add("bmc_connection_open_failures_total{version=2.0}", 1)
			} else {
				exp.add("bmc_connections_open{version=2.0}", 1)
				conn.Close()
				exp.add("bmc_connections_open{version=2.0}", -1)
			}
		case rDialAnyLiveCtxClose, rDialAnyDoneCtxClose:
			// the version-agnostic Dial: every call is an open attempt, whatever
			// the state of the context it is given
			dctx, dcancel := context.WithCancel(context.Background())
			if op == rDialAnyDoneCtxClose {
				dcancel()
			}
			conn, err := bmc.Dial(dctx, u.addr())
			dcancel()
			exp.add("bmc_connection_open_attempts_total{version=2.0}", 1)
			if err != nil {
				exp.add("bmc_connection_open_failures_total{version=2.0}", 1)
			} else {
				exp.add("bmc_connections_open{version=2.0}", 1)
				conn.Close()
				exp.add("bmc_connections_open{version=2.0}", -1)
			}
		case rCmdOnClosedConn:
			// a command on a connection whose socket is closed: one attempt, one
			// failure, no retries that reach the wire are claimed
			conn, err := bmc.DialV2(u.addr(), bmc.WithTimeout(c18RealTimeout))
			exp.add("bmc_connection_open_attempts_total{version=2.0}", 1)
			if err != nil {
				exp.add("bmc_connection_open_failures_total{version=2.0}", 1)
				break
			}
			exp.add("bmc_connections_open{version=2.0}", 1)
			conn.Close()
			exp.add("bmc_connections_open{version=2.0}", -1)
			cctx, ccancel := context.WithTimeout(context.Background(), 300*time.Millisecond)
			_, cerr := conn.GetSystemGUID(cctx)
			ccancel()
			if cerr == nil {
				return "C18/real/command-succeeds-on-closed-connection", "GetSystemGUID on a closed connection returned no error"
			}
			exp.add("bmc_command_attempts_total{command=Get System GUID}", 1)
			exp.add("bmc_command_failures_total{command=Get System GUID}", 1)
			exp.free("bmc_command_retries_total{}")
		case rDialFail:
			_, err := bmc.DialV2("256.0.0.1:notaport")
			exp.add("bmc_connection_open_attempts_total{version=2.0}", 1)
			if err != nil {
				exp.add("bmc_connection_open_failures_total{version=2.0}", 1)
			} else {
				exp.add("bmc_connections_open{version=2.0}", 1)
			}
		case rCmdOk, rCmdLostThenOk:
			if len(conns) == 0 {
				continue
			}
			conn := conns[len(conns)-1]
			u.mu.Lock()
			u.started, u.sendNo = op == rCmdLostThenOk, 0
			u.c = c13Case{Pattern: "black-hole", Step: 0, Once: true}
			u.mu.Unlock()
			_, err := conn.GetSystemGUID(ctx)
			tx := 1
			if op == rCmdLostThenOk {
				tx = 2
			}
			exp.account("Get System GUID", tx, []byte{0}, err != nil)
			u.mu.Lock()
			u.started = false
			u.mu.Unlock()
		case rNSOk:
			if len(conns) == 0 || sess != nil {
				continue
			}
			s, err := conns[len(conns)-1].NewV2Session(ctx, &bmc.V2SessionOpts{SessionOpts: bmc.SessionOpts{Username: "c18", Password: u.bmc.Cfg.Password}, CipherSuites: []ipmi.CipherSuite{ipmi.CipherSuite3}})
			exp.add("bmc_session_open_attempts_total{}", 1)
			if err != nil {
				exp.add("bmc_session_open_failures_total{}", 1)
			} else {
				exp.add("bmc_sessions_open{}", 1)
				sess = s
			}
		case rSessClose:
			if sess == nil {
				continue
			}
			sess.Close(ctx)
			exp.account("Close Session", 1, []byte{0}, false)
			exp.add("bmc_sessions_open{}", -1)
			sess = nil
		case rTransportClose:
			if len(conns) == 0 {
				continue
			}
			conns[len(conns)-1].Close()
			conns = conns[:len(conns)-1]
			exp.add("bmc_connections_open{version=2.0}", -1)
			sess = nil
		}
	}
	after, err := gather()
	if err != nil {
		return "C18/harness", err.Error()
	}
	for _, cn := range conns {
		cn.Transport.Close() // release sockets without touching the gauge under test
	}
	return c18Compare(before, after, exp, c18Names(c.Ops))
}

func runC18(r *rep.R) {
	D := 3
	if thorough(r) {
		D = 5
	}
	r.SetRule(fmt.Sprintf("a case is one history of operations on one connection; all histories %s over 22 operation kinds (session opens succeeding / failing at the Open Session status, RAKP 2 and RAKP 4 checks / with discovery / with no supported suite; commands succeeding, failing with a code, failing on body decode, retried once or twice, retried after garbage, losing the reply, expiring the context, failing to serialise; closes succeeding and failing), a 60-step structured history with each kind inserted at each position, and DialV2/transport-close histories over UDP loopback; the deltas of every bmc_* counter and gauge read from prometheus.DefaultGatherer must equal an accounting of what the harness observed (calls made, errors returned, transmissions, valid responses delivered with their codes, opens and closes)", map[bool]string{false: "of length <= 3", true: "of length <= 4, and all of length 5 that begin with a session open of any kind,"}[D == 5]))
	var idx int64
	do := func(c c18Case) {
		idx++
		if !r.Mine(idx) {
			return
		}
		var k, msg string
		p := guard(func() { k, msg = c18One(c) })
		if p != "" {
			k, msg = "C18/panic", p
		}
		r.Eval(rep.H(fmt.Sprint(c.Ops), c.Real), true)
		r.Trace()
		if k != "" {
			if !c.Real {
				r.Outcome("violation")
			}
			if c.Real {
				// real sockets and timers: report only what repeats, and treat a
				// mismatch that does not repeat as scheduling noise, not as a finding
				same := true
				for i := 0; i < 4 && same; i++ {
					k2, _ := c18One(c)
					same = k2 == k
				}
				if !same {
					r.Count("real_socket_mismatch_not_reproduced", 1)
					r.Outcome("metrics-equal:with-dials-over-udp")
					return
				}
				r.Outcome("violation")
				r.Violate(k, msg, "c18", c, nil)
				return
			}
			r.Violate(k, msg, "c18", c, func() bool { k2, _ := c18One(c); return k2 == k })
			return
		}
		out := "metrics-equal:commands-only"
		for _, o := range c.Ops {
			if o <= kNSNoSuite || o == kCloseOk || o == kCloseFail {
				out = "metrics-equal:with-session-opens-and-closes"
			}
			if o >= 100 {
				out = "metrics-equal:with-dials-over-udp"
				break
			}
		}
		r.Outcome(out)
		if r.WantSample() && len(c.Ops) > 2 {
			r.Sample(c18Names(c.Ops))
		}
	}
	var gen func(cur []int)
	gen = func(cur []int) {
		if len(cur) > 0 {
			do(c18Case{Ops: append([]int{}, cur...)})
		}
		if len(cur) == D {
			return
		}
		// the fifth step only behind a session open of some kind (a third of the
		// depth-5 histories, and the ones in which later steps can depend on
		// earlier ones): the full depth-5 space took 18 minutes on 16 cores
		if len(cur) == 4 && !(cur[0] <= kNSNoSuite || cur[0] == kNSFailAfterHandshake) {
			return
		}
		for o := 0; o < kNumOps; o++ {
			gen(append(cur, o))
		}
	}
	gen(nil)
	// structured 60-step history: each kind inserted at each position of a fixed background
	bg := []int{}
	for i := 0; i < 60; i++ {
		bg = append(bg, []int{kNSOk, kCmdOk, kCmdBusyOk, kCmdOk, kCloseOk, kCmdOk}[i%6])
	}
	for pos := 0; pos < 60; pos += 1 {
		for o := 0; o < kNumOps; o++ {
			if !thorough(r) && (pos%7 != 0) {
				continue
			}
			h := append(append(append([]int{}, bg[:pos]...), o), bg[pos:]...)
			do(c18Case{Ops: h})
		}
	}
	// every completion code, outside and inside a session
	for cc := 1; cc < 256; cc++ {
		do(c18Case{Ops: []int{1000 + cc}})
		do(c18Case{Ops: []int{kNSOk, 1000 + cc, kCloseOk}})
	}
	// special histories
	for _, h := range [][]int{{2000}, {2000, kCmdOk, kCloseOk}, {2000, kNSOk, kCloseOk}, {kNSOk, 2001, kCloseOk}, {kNSOk, kCmdOk, 2001, kCmdOk, kCloseOk}, {kNSOk, 2001, 2001, kCloseOk}} {
		do(c18Case{Ops: h})
	}
	// dial / transport close histories
	realOps := []int{rDialOk, rDialFail, rCmdOk, rCmdLostThenOk, rNSOk, rSessClose, rTransportClose, rDialZeroTimeoutClose, rDialNegTimeoutClose, rDialTwoOptionsClose, rDialAnyLiveCtxClose, rDialAnyDoneCtxClose, rCmdOnClosedConn, rDialNoPortClose}
	var genR func(cur []int)
	depthR := 3
	if thorough(r) {
		depthR = 4
	}
	genR = func(cur []int) {
		if len(cur) > 0 {
			do(c18Case{Ops: append([]int{}, cur...), Real: true})
		}
		if len(cur) == depthR {
			return
		}
		for _, o := range realOps {
			genR(append(cur, o))
		}
	}
	genR(nil)
	r.Bound("history_depth", D)
	r.Assume("Close Session carries no response body, so a non-normal completion code for it is not a command failure (documented in connection.go)")
	r.Assume("transport-level histograms and the duration histogram are not part of the property")
}
