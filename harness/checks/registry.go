// Package checks holds one entry point per property.
package checks

import (
	"encoding/json"

	"verif/rep"
)

// Check describes one property's check.
type Check struct {
	ID string
	// Run explores this shard's part of the space and records into r.
	Run func(r *rep.R)
	// Shards is the number of worker processes (1 = in-process only).
	Shards int
	// MinOutcomes is the vacuity guard: fewer distinct outcomes is an
	// infrastructure error, not a pass.
	MinOutcomes int
}

var Registry = map[string]*Check{}

func register(c *Check) {
	if c.Shards == 0 {
		c.Shards = 1
	}
	Registry[c.ID] = c
}

// Replayers re-execute one recorded case (kind -> func). They return a
// human-readable result and whether the violation reproduced.
var Replayers = map[string]func(raw json.RawMessage) (string, bool){}

func thorough(r *rep.R) bool { return r.Tier == "thorough" }
