package checks

import (
	"context"
	"fmt"
	"sync"
	"time"
	"verif/ref"

	"github.com/gebn/bmc"
	"github.com/gebn/bmc/pkg/dcmi"
	"github.com/gebn/bmc/pkg/ipmi"
)

// RacePass runs n goroutines x iters iterations, each goroutine against its
// own UDP loopback BMC through the real transport (so transport.recvBuf is
// included), and checks each goroutine's results against the values its own
// BMC serves. Data races are reported by the race detector the binary is
// built with.
func RacePass(n, iters int) error {
	var wg sync.WaitGroup
	errs := make(chan error, n)
	for g := 0; g < n; g++ {
		g := g
		wg.Add(1)
		go func() {
			defer wg.Done()
			cfg := c13Config()
			cfg.DeviceID = append([]byte{}, cfg.DeviceID...)
			cfg.DeviceID[0] = byte(0x40 + g)
			cfg.SystemGUID = arr16(byte(g), 7)
			// sensor names in the two packed ID-string encodings, different per BMC
			cfg.Repo.Recs = append(cfg.Repo.Recs,
				ref.SDRRec{ID: uint16(0x200 + g), Data: fsrBytesPacked(uint16(0x200+g), byte(g), 1, pattern(9+g%3, byte(g), 3))},
				ref.SDRRec{ID: uint16(0x300 + g), Data: fsrBytesPacked(uint16(0x300+g), byte(g), 2, pattern(7+g%4, byte(0x21+g*5), 7))})
			cfg.Password = []byte(fmt.Sprintf("pw-%d", g))
			u, err := newUDPBMC(cfg)
			if err != nil {
				errs <- err
				return
			}
			defer u.close()
			for it := 0; it < iters; it++ {
				if err := raceBody(g, it, u); err != nil {
					errs <- fmt.Errorf("goroutine %d iteration %d: %v", g, it, err)
					return
				}
			}
		}()
	}
	wg.Wait()
	close(errs)
	for e := range errs {
		return e
	}
	return nil
}

func raceBody(g, it int, u *udpBMC) error {
	ctx, cancel := context.WithTimeout(context.Background(), 20*time.Second)
	defer cancel()
	conn, err := bmc.DialV2(u.addr(), bmc.WithTimeout(2*time.Second))
	if err != nil {
		return err
	}
	defer conn.Close()
	guid, err := conn.GetSystemGUID(ctx)
	if err != nil || guid != u.bmc.Cfg.SystemGUID {
		return fmt.Errorf("GetSystemGUID = %x, %v; BMC serves %x", guid, err, u.bmc.Cfg.SystemGUID)
	}
	opts := &bmc.V2SessionOpts{SessionOpts: bmc.SessionOpts{Username: fmt.Sprintf("u%d", g), Password: u.bmc.Cfg.Password, MaxPrivilegeLevel: ipmi.PrivilegeLevelAdministrator}}
	if (g+it)%2 == 0 {
		opts.CipherSuites = []ipmi.CipherSuite{ipmi.CipherSuite3}
	}
	sess, err := conn.NewV2Session(ctx, opts)
	if err != nil {
		return fmt.Errorf("NewV2Session: %v", err)
	}
	dev, err := sess.GetDeviceID(ctx)
	if err != nil || dev.ID != u.bmc.Cfg.DeviceID[0] {
		return fmt.Errorf("GetDeviceID = %+v, %v; BMC serves ID %#x", dev, err, u.bmc.Cfg.DeviceID[0])
	}
	switch (g + it) % 3 {
	case 0:
		repo, err := bmc.RetrieveSDRRepository(ctx, sess)
		if err != nil || len(repo) != 4 {
			return fmt.Errorf("RetrieveSDRRepository: %d records, %v", len(repo), err)
		}
		var wantB, want6 []rune
		for _, v := range pattern(9+g%3, byte(g), 3) {
			wantB = append(wantB, refBCDPlus[v&0xf])
		}
		for _, v := range pattern(7+g%4, byte(0x21+g*5), 7) {
			want6 = append(want6, rune(0x20+v&0x3f))
		}
		if b, s6 := repo[ipmi.RecordID(0x200+g)], repo[ipmi.RecordID(0x300+g)]; b == nil || s6 == nil || b.Identity != string(wantB) || s6.Identity != string(want6) {
			return fmt.Errorf("RetrieveSDRRepository: packed sensor names %+v %+v, the BMC serves %q and %q", b, s6, string(wantB), string(want6))
		}
	case 1:
		p, err := dcmi.NewSessionCommander(sess).GetPowerReading(ctx, &dcmi.GetPowerReadingReq{Mode: dcmi.SystemPowerStatisticsModeNormal})
		if err != nil || p.Instantaneous != 100 {
			return fmt.Errorf("GetPowerReading = %+v, %v", p, err)
		}
	default:
		si, err := dcmi.GetSensorInfo(ctx, sess)
		if err != nil || len(si.Inlet) != 3 {
			return fmt.Errorf("GetSensorInfo = %+v, %v", si, err)
		}
	}
	// commands the BMC refuses with less common completion codes (0xCB, 0xC1)
	if _, err := sess.GetSensorReading(ctx, byte(0x90+g)); err == nil {
		return fmt.Errorf("GetSensorReading of an unknown sensor succeeded")
	}
	if g%2 == 1 {
		sess.SendCommand(ctx, &rawCmd{op: ipmi.Operation{Function: 0x30, Command: ipmi.CommandNumber(0x10 + g)}, body: []byte{byte(it)}})
	}
	if err := sess.Close(ctx); err != nil {
		return fmt.Errorf("Close: %v", err)
	}
	return nil
}
