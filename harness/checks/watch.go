package checks

import (
	"runtime"
	"strings"
	"sync/atomic"
	"time"
)

// Watchdog over guarded library calls. A library call that never returns (a
// loop without I/O, which no seam can interrupt) cannot be stopped from
// outside a goroutine; the worker's monitor notices that one guarded call has
// been running for HangLimit of real time although every wait the library may
// make is virtual or bounded, reports it as a violation of the running check
// and ends the shard process (writing its results first).

type watchState struct {
	start time.Time
	kind  string
	cas   any
	note  string
}

var watchCur atomic.Pointer[watchState]
var watchNext atomic.Pointer[watchState]

// HangLimit is how long one guarded call may run in real time. Calls that
// legitimately wait on real timers (UDP worlds, C13/C18 real sockets) stay far
// below it per call.
var HangLimit = 25 * time.Second

// noteCase records what the next guarded call is about (replay kind, case,
// free text), for the hang report.
func noteCase(kind string, cas any, note string) {
	watchNext.Store(&watchState{kind: kind, cas: cas, note: note})
}

func watchEnter() {
	w := &watchState{start: time.Now()}
	if n := watchNext.Load(); n != nil {
		w.kind, w.cas, w.note = n.kind, n.cas, n.note
	}
	watchCur.Store(w)
}

func watchLeave() { watchCur.Store(nil) }

// Hung reports whether a guarded call has exceeded HangLimit and, if so, what
// it was doing: replay kind and case (may be empty), note, and the stack of
// the goroutine inside the library.
func Hung() (hung bool, kind string, cas any, note, site string) {
	w := watchCur.Load()
	if w == nil || time.Since(w.start) < HangLimit {
		return false, "", nil, "", ""
	}
	buf := make([]byte, 1<<20)
	buf = buf[:runtime.Stack(buf, true)]
	site = "unknown"
	// the first library frame of the goroutine that is inside guard
	for _, g := range strings.Split(string(buf), "\n\n") {
		if !strings.Contains(g, "checks.guard") {
			continue
		}
		lines := strings.Split(g, "\n")
		for i, l := range lines {
			if strings.HasPrefix(l, "github.com/gebn/bmc") && !strings.Contains(l, "verif_hooks") && i+1 < len(lines) {
				fn := l
				if k := strings.LastIndex(fn, "("); k > 0 {
					fn = fn[:k]
				}
				file := strings.TrimSpace(lines[i+1])
				if k := strings.Index(file, " +0x"); k > 0 {
					file = file[:k]
				}
				site = strings.TrimPrefix(fn, "github.com/gebn/bmc") + " " + strings.TrimPrefix(file, "/repo/")
				break
			}
		}
		break
	}
	return true, w.kind, w.cas, w.note, site
}
