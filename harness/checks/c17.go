package checks

import (
	"encoding/json"
	"fmt"
	"github.com/gebn/bmc/pkg/dcmi"
	"reflect"
	"sort"
	"strings"

	"github.com/gebn/bmc"
	"github.com/gebn/bmc/pkg/ipmi"

	"github.com/google/gopacket"

	"verif/ref"
	"verif/rep"
)

// C17: reusing a layer, command or connection never leaks earlier data into a result.

func init() {
	register(&Check{ID: "C17", Run: runC17, Shards: 16, MinOutcomes: 3})
	Replayers["c17layer"] = func(raw json.RawMessage) (string, bool) {
		var c c17Case
		json.Unmarshal(raw, &c)
		for _, l := range decLayers() {
			if l.Name == c.Layer {
				k, msg := c17Pair(l, c.Earlier, c.Later)
				return fmt.Sprintf("%s: %s %s", c.Layer, k, msg), k != ""
			}
		}
		return "unknown layer", false
	}
	Replayers["c17mixed"] = func(raw json.RawMessage) (string, bool) {
		var c c17MixedCase
		json.Unmarshal(raw, &c)
		k, msg := c17Mixed(c)
		return fmt.Sprintf("%s %s", k, msg), k != ""
	}
	Replayers["c17neg"] = func(raw json.RawMessage) (string, bool) {
		var c c17NegCase
		json.Unmarshal(raw, &c)
		k, msg := c17Neg(c)
		return fmt.Sprintf("%s %s", k, msg), k != ""
	}
	Replayers["c17rec"] = func(raw json.RawMessage) (string, bool) {
		var c c17RecCase
		json.Unmarshal(raw, &c)
		k, msg := c17RecPair(c)
		return fmt.Sprintf("%s %s", k, msg), k != ""
	}
	histJudges["C17"] = c17ConnJudge
}

type c17Case struct {
	Layer   string `json:"layer"`
	Earlier []byte `json:"earlier"`
	Later   []byte `json:"later"`
}

// c17Pair decodes earlier then later into one value and compares with later
// decoded into a fresh value.
func c17Pair(l decLayer, earlier, later []byte) (string, string) {
	dec := func(lay decoder, in []byte) (string, error, string) {
		var err error
		data := append([]byte{}, in...)
		p := guard(func() { err = lay.DecodeFromBytes(data, gopacket.NilDecodeFeedback) })
		if p != "" || err != nil {
			return "", err, p
		}
		return l.Snap(lay), nil, ""
	}
	used := l.New()
	_, _, p0 := dec(used, earlier)
	if p0 != "" {
		return "", "" // panics are C05's business
	}
	su, eu, pu := dec(used, later)
	sf, ef, pf := dec(l.New(), later)
	if pu != "" || pf != "" {
		return "", ""
	}
	if (eu == nil) != (ef == nil) {
		return "C17/layer/" + l.Name + "/error-depends-on-history", fmt.Sprintf("decoding % x after % x: err=%v; into a fresh value: err=%v", later, earlier, eu, ef)
	}
	if eu == nil && su != sf {
		return "C17/layer/" + l.Name + "/stale-data", fmt.Sprintf("decoding % x after % x gives\n  %s\ninto a fresh value\n  %s", later, earlier, su, sf)
	}
	return "", ""
}

// c17ConnJudge: the last command's result must equal its result on a fresh
// connection (history consisting of that command alone).
func c17ConnJudge(cfg histCfg, o *histObs) []finding {
	var out []finding
	if o.HandshakeErr != "" {
		return []finding{{"C17/conn/handshake", o.HandshakeErr}}
	}
	n := len(cfg.Ops)
	last := n - 1
	if cfg.InSession {
		last = n - 2 // final Close
	}
	solo := cfg
	solo.Ops = cfg.Ops[last:]
	solo.Alphabet = ""
	base := c04Baseline(solo)
	r, v := o.Results[last], base.Results[0]
	mode := map[bool]string{true: "insession", false: "sessionless"}[cfg.InSession]
	if r.Panic != "" {
		return []finding{{"C17/conn/" + mode + "/panic", r.Panic}}
	}
	// when the last command itself was disturbed, its result is only comparable
	// if every disturbance is one the library recovers from by retrying
	// (undecodable or temporary replies followed by the honest one)
	for k, a := range r.Answers {
		cl := r.Classes[k]
		transparent := a == "ok" || a == "ok(horizon)" || cl == clsUndecodable || cl == clsTemporary
		if !transparent {
			return nil
		}
	}
	if r.ErrNil != v.ErrNil || r.Code != v.Code || r.Rsp != v.Rsp {
		var hist []string
		for p := 0; p <= last; p++ {
			hist = append(hist, fmt.Sprintf("%s%v", histOps[cfg.Ops[p]].Name, o.Results[p].Answers))
		}
		out = append(out, finding{"C17/conn/" + mode + "/result-depends-on-history/" + histOps[cfg.Ops[last]].Name, fmt.Sprintf("after %v the command returned (code %#02x, err %q, %s); on a fresh connection (code %#02x, err %q, %s)", hist[:last], r.Code, r.Err, r.Rsp, v.Code, v.Err, v.Rsp)})
	}
	return out
}

// c17Records returns what cipher-suite discovery reports for the record data.
func c17Records(data []byte) ([]string, error) {
	cfg := defaultConfig()
	cfg.CipherSuiteData = data
	w := newWorld(cfg, nil, nil)
	var recs []ipmi.CipherSuiteRecord
	var err error
	if p := guard(func() { recs, err = bmc.RetrieveSupportedCipherSuites(w.Ctx, w.Conn) }); p != "" {
		return nil, fmt.Errorf("panic: %s", p)
	}
	var out []string
	for _, rec := range recs {
		out = append(out, canonNamed(reflect.ValueOf(rec)))
	}
	return out, err
}

type c17RecCase struct {
	Earlier ref.CSRecord `json:"earlier"`
	Later   ref.CSRecord `json:"later"`
}

// c17RecPair: the entries reported for a record must not depend on the record
// listed before it (the parser walks the records with reused scratch values).
func c17RecPair(c c17RecCase) (string, string) {
	alone, err1 := c17Records(c.Later.Encode())
	both, err2 := c17Records(append(c.Earlier.Encode(), c.Later.Encode()...))
	if err1 != nil || err2 != nil {
		return "", "" // rejecting is C16's business
	}
	if len(both) < len(alone) {
		return "C17/records/later-record-lost", fmt.Sprintf("record %+v alone yields %v; after %+v the list is %v", c.Later, alone, c.Earlier, both)
	}
	tail := both[len(both)-len(alone):]
	for i := range alone {
		if tail[i] != alone[i] {
			return "C17/records/entry-depends-on-earlier-record", fmt.Sprintf("record %+v alone yields %s; listed after %+v it yields %s", c.Later, alone[i], c.Earlier, tail[i])
		}
	}
	return "", ""
}

// c17NegCase: what a session establishment negotiates must not depend on an
// earlier establishment (on another connection, or with the same options value).
type c17NegCase struct {
	Earlier int  `json:"earlier"` // advertised by the BMC contacted first: bit0 suite 17, bit1 suite 3, bit2 suite 8
	Later   int  `json:"later"`   // advertised by the BMC under test
	Prefs   int  `json:"prefs"`   // 0: none (library defaults); 1: [17,3]; 2: [3,17]; 3: [8,17,3]
	Shared  bool `json:"shared"`  // the same options value (and preference slice) is used for both
}

func c17Neg(c c17NegCase) (string, string) {
	adv := func(mask int) []byte {
		recs := []ref.CSRecord{csRecOEM}
		if mask&1 != 0 {
			recs = append(recs, csRec17)
		}
		if mask&2 != 0 {
			recs = append(recs, csRec3)
		}
		if mask&4 != 0 {
			recs = append(recs, csRec8)
		}
		return csData(recs...)
	}
	prefs := func() []ipmi.CipherSuite {
		switch c.Prefs {
		case 1:
			return []ipmi.CipherSuite{ipmi.CipherSuite17, ipmi.CipherSuite3}
		case 2:
			return []ipmi.CipherSuite{ipmi.CipherSuite3, ipmi.CipherSuite17}
		case 3:
			return []ipmi.CipherSuite{suiteOf(ref.Suite{Auth: 2, Integ: 2, Conf: 1}), ipmi.CipherSuite17, ipmi.CipherSuite3}
		}
		return nil
	}
	run := func(mask int, opts *bmc.V2SessionOpts) string {
		cfg := defaultConfig()
		cfg.CipherSuiteData = adv(mask)
		w := newWorld(cfg, nil, nil)
		out := ""
		guard(func() {
			s, err := w.Conn.NewV2Session(w.Ctx, opts)
			if err != nil {
				out = "error: " + err.Error()
				return
			}
			out = fmt.Sprintf("suite %d/%d/%d", s.AuthenticationAlgorithm, s.IntegrityAlgorithm, s.ConfidentialityAlgorithm)
			s.Close(w.Ctx)
		})
		for _, rx := range w.BMC.Log {
			if rx.Name == "Open Session Request" {
				out += fmt.Sprintf(" proposed %d/%d/%d", rx.Fields["auth"], rx.Fields["integ"], rx.Fields["conf"])
			}
		}
		return out
	}
	mk := func() *bmc.V2SessionOpts {
		return &bmc.V2SessionOpts{SessionOpts: bmc.SessionOpts{Username: "neg", Password: defaultConfig().Password, MaxPrivilegeLevel: ipmi.PrivilegeLevelUser}, CipherSuites: prefs()}
	}
	fresh := run(c.Later, mk())
	first := mk()
	run(c.Earlier, first)
	second := mk()
	if c.Shared {
		second = first
	}
	used := run(c.Later, second)
	if used != fresh {
		return "C17/negotiation-depends-on-an-earlier-establishment", fmt.Sprintf("preferences kind %d against a BMC advertising mask %03b: %q; after an establishment against a BMC advertising %03b (same options value: %v): %q", c.Prefs, c.Later, fresh, c.Earlier, c.Shared, used)
	}
	return "", ""
}

// c17MixedCase: one connection used for session-less commands, paged
// session-less exchanges and two sessions in any order. ops: 0 command on
// session A, 1 DCMI command on A, 2 session-less command, 3 cipher-suite
// discovery, 4 open session B (another suite) + command, 5 close A, 6 command
// on B, 7 SDR walk on A (A and B are opened when first needed).
type c17MixedCase struct {
	Ops []int `json:"ops"`
}

var c17MixedNames = []string{"A.GetDeviceID", "A.dcmi.GetPowerReading", "conn.GetSystemGUID", "RetrieveSupportedCipherSuites", "open-B+B.GetChassisStatus", "A.Close", "B.GetDeviceID", "A.RetrieveSDRRepository", "A.GetDeviceID x70"}

func c17MixedRun(ops []int) (results []string, problems []string, panicked string) {
	cfg := histConfig(ref.Suite{Auth: 1, Integ: 1, Conf: 1})
	cfg.DistinctSIDs = true
	w := newWorld(cfg, nil, nil)
	var a, b *bmc.V2Session
	aClosed := false
	open := func(suite ipmi.CipherSuite, user string) *bmc.V2Session {
		s, err := w.Conn.NewV2Session(w.Ctx, &bmc.V2SessionOpts{SessionOpts: bmc.SessionOpts{Username: user, Password: cfg.Password, MaxPrivilegeLevel: ipmi.PrivilegeLevelAdministrator}, CipherSuites: []ipmi.CipherSuite{suite}})
		if err != nil {
			results = append(results, "open "+user+": "+err.Error())
			return nil
		}
		return s
	}
	panicked = guard(func() {
		for _, op := range ops {
			if (op == 0 || op == 1 || op == 5 || op == 7 || op == 8) && a == nil && !aClosed {
				a = open(ipmi.CipherSuite3, "userA")
			}
			if (op == 4 || op == 6) && b == nil {
				b = open(ipmi.CipherSuite17, "userB")
			}
			out := ""
			switch op {
			case 0:
				if a != nil {
					v, err := a.GetDeviceID(w.Ctx)
					out = fmt.Sprintf("%+v %v", v, err)
				}
			case 1:
				if a != nil {
					v, err := dcmi.NewSessionCommander(a).GetPowerReading(w.Ctx, &dcmi.GetPowerReadingReq{Mode: dcmi.SystemPowerStatisticsModeNormal})
					out = fmt.Sprintf("%+v %v", v, err)
				}
			case 2:
				v, err := w.Conn.GetSystemGUID(w.Ctx)
				out = fmt.Sprintf("%x %v", v, err)
			case 3:
				v, err := bmc.RetrieveSupportedCipherSuites(w.Ctx, w.Conn)
				out = fmt.Sprintf("%v %v", v, err)
			case 4:
				if b != nil {
					v, err := b.GetChassisStatus(w.Ctx)
					out = fmt.Sprintf("suite %v/%v/%v %+v %v", b.AuthenticationAlgorithm, b.IntegrityAlgorithm, b.ConfidentialityAlgorithm, v, err)
				}
			case 5:
				if a != nil {
					out = fmt.Sprint(a.Close(w.Ctx))
					a, aClosed = nil, true
				}
			case 6:
				if b != nil {
					v, err := b.GetDeviceID(w.Ctx)
					out = fmt.Sprintf("%+v %v", v, err)
				}
			case 8:
				if a != nil {
					for i := 0; i < 70; i++ {
						v, err := a.GetDeviceID(w.Ctx)
						out = fmt.Sprintf("%+v %v", v, err)
						if err != nil {
							out = fmt.Sprintf("command %d of 70: %v", i+1, err)
							break
						}
					}
				}
			case 7:
				if a != nil {
					repo, err := bmc.RetrieveSDRRepository(w.Ctx, a)
					var ids []int
					for id := range repo {
						ids = append(ids, int(id))
					}
					sort.Ints(ids)
					out = fmt.Sprintf("%v", err)
					for _, id := range ids {
						out += fmt.Sprintf(" %#04x:%s", id, canonNamed(reflect.ValueOf(repo[ipmi.RecordID(id)])))
					}
				}
			}
			results = append(results, out)
		}
	})
	problems = problemsOf(w.BMC)
	// per session: sequence numbers 1, 2, 3, ... in the order received
	next := map[uint32]uint32{}
	for i, rx := range w.BMC.Log {
		if rx.Pkt == nil || rx.Pkt.SID == 0 {
			continue
		}
		next[rx.Pkt.SID]++
		if rx.Pkt.Seq != next[rx.Pkt.SID] {
			problems = append(problems, fmt.Sprintf("datagram %d for session %#x carries sequence number %d, expected %d", i, rx.Pkt.SID, rx.Pkt.Seq, next[rx.Pkt.SID]))
			next[rx.Pkt.SID] = rx.Pkt.Seq
		}
	}
	return
}

var c17MixedSolo = map[int]string{}

func c17Mixed(c c17MixedCase) (string, string) {
	res, probs, p := c17MixedRun(c.Ops)
	var names []string
	for _, op := range c.Ops {
		names = append(names, c17MixedNames[op])
	}
	if p != "" {
		return "C17/mixed/panic/" + siteKey(p), fmt.Sprintf("history %v: %s", names, p)
	}
	if len(probs) > 0 {
		return "C17/mixed/bmc-rejects-datagram", fmt.Sprintf("history %v: %s", names, strings.Join(probs, "; "))
	}
	aClosed := false
	for i, op := range c.Ops {
		if (op == 0 || op == 1 || op == 5 || op == 7 || op == 8) && aClosed {
			continue // A is gone: nothing is asked of it
		}
		solo, ok := c17MixedSolo[op]
		if !ok {
			r, _, _ := c17MixedRun([]int{op})
			solo = r[len(r)-1]
			c17MixedSolo[op] = solo
		}
		if i < len(res) && res[i] != solo {
			return "C17/mixed/result-depends-on-history/" + c17MixedNames[op], fmt.Sprintf("history %v: step %d (%s) returned %s; on a fresh connection it returns %s", names, i, c17MixedNames[op], res[i], solo)
		}
		if op == 5 {
			aClosed = true
		}
	}
	return "", ""
}

func runC17(r *rep.R) {
	r.SetRule("layer level: for every decodable layer, every ordered pair (earlier, later) from its shape catalogue (valid encodings per branch and optional-tail length, their all-FF / all-00 same-length variants, and every truncation of them) is decoded earlier-then-later into one value and later into a fresh value; all exported fields, contents and payload must agree. Connection level: every ordered pair of commands (first one also failed or retried, k<=1 deviations) on one connection and one session; the second command's result must equal its result on a fresh connection. distinct = distinct (layer, earlier, later) / (history, choices)")
	reg := decLayers()
	if miss := missingLayers(reg); len(miss) > 0 {
		r.Cap("decoders present in /repo but not in the harness registry: %v", miss)
	}
	var idx int64
	for _, l := range reg {
		var shapes [][]byte
		seen := map[string]bool{}
		add := func(b []byte) {
			if !seen[string(b)] {
				seen[string(b)] = true
				shapes = append(shapes, b)
			}
		}
		for _, b := range l.Bases {
			add(b)
			ff := pattern(len(b), 0xFF, 0)
			zz := pattern(len(b), 0x00, 0)
			// keep the discriminating leading bytes so the variant takes the same branch
			for _, keep := range []int{0, 1, 2, 4} {
				if keep <= len(b) {
					add(cat(b[:keep], ff[keep:]))
					add(cat(b[:keep], zz[keep:]))
				}
			}
			for n := 0; n < len(b); n++ {
				add(b[:n])
			}
			add(cat(b, []byte{0xFF}))
			add(cat(b, []byte{0xFF, 0xFF, 0xFF}))
		}
		for _, e := range shapes {
			for _, la := range shapes {
				idx++
				if !r.Mine(idx) {
					continue
				}
				k, msg := c17Pair(l, e, la)
				r.Eval(rep.H(l.Name, e, la), true)
				if k != "" {
					r.Outcome("violation")
					r.Violate(k, msg, "c17layer", c17Case{Layer: l.Name, Earlier: e, Later: la}, nil)
				} else {
					r.Outcome("layer:used-equals-fresh")
					if r.WantSample() && idx%7919 == 0 {
						r.Sample(map[string]any{"layer": l.Name, "earlier_hex": fmt.Sprintf("%x", e), "later_hex": fmt.Sprintf("%x", la)})
					}
				}
			}
		}
	}
	// records of a paged list: every ordered pair of cipher-suite record shapes
	var shapes []ref.CSRecord
	for oem := 0; oem < 2; oem++ {
		for ni := 0; ni < 4; ni++ {
			for nc := 0; nc < 4; nc++ {
				rec := ref.CSRecord{ID: byte(len(shapes) + 1), OEM: oem == 1, IANA: 0x00A2B7 + uint32(ni), Auth: byte(1 + (ni+nc)%3)}
				for i := 0; i < ni; i++ {
					rec.Integs = append(rec.Integs, byte(1+i))
				}
				for i := 0; i < nc; i++ {
					rec.Confs = append(rec.Confs, byte(1+i))
				}
				shapes = append(shapes, rec)
			}
		}
	}
	for _, a := range shapes {
		for _, b := range shapes {
			idx++
			if !r.Mine(idx) {
				continue
			}
			c := c17RecCase{Earlier: a, Later: b}
			k, msg := c17RecPair(c)
			r.Eval(rep.H("recpair", fmt.Sprint(a), fmt.Sprint(b)), true)
			r.Trace()
			if k != "" {
				r.Outcome("violation")
				r.Violate(k, msg, "c17rec", c, nil)
			} else {
				r.Outcome("records:later-independent-of-earlier")
			}
		}
	}
	// one connection used for everything, in every order
	var genMixed func(cur []int)
	depthMixed := 4
	if thorough(r) {
		depthMixed = 5
	}
	genMixed = func(cur []int) {
		if len(cur) > 0 {
			idx++
			if r.Mine(idx) {
				c := c17MixedCase{Ops: append([]int{}, cur...)}
				k, msg := c17Mixed(c)
				r.Eval(rep.H("mixed", fmt.Sprint(cur)), true)
				r.Trace()
				if k != "" {
					r.Outcome("violation")
					r.Violate(k, msg, "c17mixed", c, nil)
				} else {
					r.Outcome("mixed:each-result-as-on-a-fresh-connection")
				}
			}
		}
		if len(cur) == depthMixed {
			return
		}
		for op := 0; op < len(c17MixedNames); op++ {
			genMixed(append(cur, op))
		}
	}
	genMixed(nil)
	// session establishment after an earlier establishment
	for earlier := 1; earlier < 8; earlier++ {
		for later := 1; later < 8; later++ {
			for prefs := 0; prefs < 4; prefs++ {
				for _, shared := range []bool{false, true} {
					idx++
					if !r.Mine(idx) {
						continue
					}
					c := c17NegCase{Earlier: earlier, Later: later, Prefs: prefs, Shared: shared}
					k, msg := c17Neg(c)
					r.Eval(rep.H("neg", fmt.Sprint(c)), true)
					r.Trace()
					if k != "" {
						r.Outcome("violation")
						r.Violate(k, msg, "c17neg", c, nil)
					} else {
						r.Outcome("negotiation:independent-of-earlier-establishment")
					}
				}
			}
		}
	}
	// connection level
	alphabet := []int{opGetDeviceID, opChassisStatus, opGetSDR, opSetPriv, opPowerReading, opSensorReading, opSystemGUID, opSessionInfo, opAuthCaps, opChassisControl, opRetrieveSDRs, opSensorInfo, c03Ops[8], c03Ops[24]}
	for _, inSess := range []bool{true, false} {
		for _, a := range alphabet {
			for _, b := range alphabet {
				if !inSess && (a == opRetrieveSDRs || a == opSensorInfo || b == opRetrieveSDRs || b == opSensorInfo) {
					continue
				}
				ops := []int{a, b}
				if inSess {
					ops = append(ops, opClose)
				}
				cfg := histCfg{Suite: ref.Suite{Auth: 1, Integ: 1, Conf: 1}, InSession: inSess, Ops: ops, Horizon: 2, Alphabet: "retry", MenuOps: []int{0, 1}}
				histExploreWith(r, "C17", cfg, 1, &idx, c17ConnJudge)
			}
		}
	}
	r.Assume("observable = exported fields plus LayerContents/LayerPayload as rendered by %+v; nil and empty slices are not distinguished")
}
