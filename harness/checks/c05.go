package checks

import (
	"crypto/aes"
	"crypto/cipher"
	"crypto/hmac"
	"crypto/sha1"
	"encoding/json"
	"fmt"
	"github.com/gebn/bmc"
	"github.com/gebn/bmc/pkg/dcmi"
	"github.com/gebn/bmc/pkg/iana"
	"github.com/gebn/bmc/pkg/ipmi"
	"hash"
	"strings"
	"time"

	"github.com/google/gopacket"

	"verif/rep"
)

// C05: no received bytes can crash or hang the library (layer level; the
// protocol-level part is in c05proto.go).

type truncHash struct {
	hash.Hash
	n int
}

func (t truncHash) Sum(b []byte) []byte { s := t.Hash.Sum(b); return s[:len(b)+t.n] }
func (t truncHash) Size() int           { return t.n }

func hmacSHA1_96(key []byte) hash.Hash { return truncHash{hmac.New(sha1.New, key), 12} }

func init() {
	register(&Check{ID: "C05", Run: runC05, Shards: 16, MinOutcomes: 3})
	Replayers["c05layer"] = func(raw json.RawMessage) (string, bool) {
		var c c05Case
		json.Unmarshal(raw, &c)
		for _, l := range decLayers() {
			if l.Name == c.Layer {
				k, msg := c05Decode(l, c.Input)
				return fmt.Sprintf("%s % x: %s %s", c.Layer, c.Input, k, msg), k != ""
			}
		}
		return "unknown layer " + c.Layer, false
	}
}

type c05Case struct {
	Layer string `json:"layer"`
	Input []byte `json:"input"`
}

// c05Decode decodes in on an exact-capacity slice (over-reads panic) under a
// watchdog, then as a window into a 512-byte buffer under two poison fills
// (a difference is a dependence on memory past the datagram).
func c05Decode(l decLayer, in []byte) (key, msg string) {
	exact := make([]byte, len(in))
	copy(exact, in)
	exact = exact[:len(in):len(in)]
	type res struct {
		p    string
		err  error
		snap string
	}
	run := func(data []byte) res {
		done := make(chan res, 1)
		go func() {
			var r res
			lay := l.New()
			r.p = guard(func() { r.err = lay.DecodeFromBytes(data, gopacket.NilDecodeFeedback) })
			if r.p == "" && r.err == nil {
				r.p = guard(func() { r.snap = l.Snap(lay) })
			}
			if r.p == "" && r.err == nil {
				// rendering a decoded value (error messages, logs) runs the String
				// methods of its fields; fmt reports a panic in one of them in-band
				if out := fmt.Sprintf("%v %+v", lay, lay); strings.Contains(out, "PANIC=") {
					r.p = "panic in a String method while formatting the decoded value: " + out[strings.Index(out, "PANIC="):min(len(out), strings.Index(out, "PANIC=")+160)]
				}
			}
			done <- r
		}()
		select {
		case r := <-done:
			return r
		case <-time.After(60 * time.Second):
			return res{p: "WATCHDOG: decode did not terminate within 60 s"}
		}
	}
	r0 := run(exact)
	if r0.p != "" {
		if strings.HasPrefix(r0.p, "WATCHDOG") {
			return "C05/layer/" + l.Name + "/hang", r0.p
		}
		return "C05/layer/" + l.Name + "/panic/" + siteKey(r0.p), fmt.Sprintf("decoding %d bytes % x panics: %s", len(in), in, r0.p)
	}
	var snaps [2]res
	for i, poison := range []byte{0xAA, 0x55} {
		buf := make([]byte, 512)
		for k := range buf {
			buf[k] = poison
		}
		n := copy(buf, in)
		snaps[i] = run(buf[:n])
	}
	if snaps[0].p != "" || snaps[1].p != "" {
		return "C05/layer/" + l.Name + "/panic-on-window/" + siteKey(snaps[0].p+snaps[1].p), fmt.Sprintf("decoding % x as a window of the receive buffer panics: %s %s", in, snaps[0].p, snaps[1].p)
	}
	if (snaps[0].err == nil) != (snaps[1].err == nil) || snaps[0].snap != snaps[1].snap {
		return "C05/layer/" + l.Name + "/depends-on-bytes-past-datagram", fmt.Sprintf("decoding the %d bytes % x gives different results depending on what follows them in the receive buffer:\n  fill AA: err=%v %s\n  fill 55: err=%v %s", len(in), in, snaps[0].err, snaps[0].snap, snaps[1].err, snaps[1].snap)
	}
	if (r0.err == nil) != (snaps[0].err == nil) || r0.snap != snaps[0].snap {
		return "C05/layer/" + l.Name + "/depends-on-capacity", fmt.Sprintf("exact-capacity decode of % x differs from window decode: err=%v %s vs err=%v %s", in, r0.err, r0.snap, snaps[0].err, snaps[0].snap)
	}
	return "", ""
}

// aesCrafted builds, for every pad-length byte value and 1..3 blocks, an input
// whose decryption ends in that pad-length byte preceded by the pad the
// validator expects at every position it can read - including positions that
// fall into the IV - so inputs that pass the pad check exist whenever possible.
// c05Stringers: the String methods of the named wire types, by value.
func c05Stringers() map[string]func(int) string {
	return map[string]func(int) string{
		"ipmi.OutputType":                func(v int) string { return ipmi.OutputType(v).String() },
		"ipmi.Channel":                   func(v int) string { return ipmi.Channel(v).String() },
		"ipmi.Linearisation":             func(v int) string { return ipmi.Linearisation(v).String() },
		"ipmi.EntityInstance":            func(v int) string { return ipmi.EntityInstance(v).String() },
		"ipmi.CipherSuiteID":             func(v int) string { return ipmi.CipherSuiteID(v).String() },
		"ipmi.ConfidentialityAlgorithm":  func(v int) string { return ipmi.ConfidentialityAlgorithm(v).String() },
		"ipmi.StringEncoding":            func(v int) string { return ipmi.StringEncoding(v).String() },
		"ipmi.StatusCode":                func(v int) string { return ipmi.StatusCode(v).String() },
		"ipmi.EntityID":                  func(v int) string { return ipmi.EntityID(v).String() },
		"ipmi.Address":                   func(v int) string { return ipmi.Address(v).String() },
		"ipmi.RecordType":                func(v int) string { return ipmi.RecordType(v).String() },
		"ipmi.PayloadType":               func(v int) string { return ipmi.PayloadType(v).String() },
		"ipmi.PowerRestorePolicy":        func(v int) string { return ipmi.PowerRestorePolicy(v).String() },
		"ipmi.ChassisIdentifyState":      func(v int) string { return ipmi.ChassisIdentifyState(v).String() },
		"ipmi.AuthenticationType":        func(v int) string { return ipmi.AuthenticationType(v).String() },
		"ipmi.ChassisControl":            func(v int) string { return ipmi.ChassisControl(v).String() },
		"ipmi.SensorType":                func(v int) string { return ipmi.SensorType(v).String() },
		"ipmi.LUN":                       func(v int) string { return ipmi.LUN(v).String() },
		"ipmi.SensorUnit":                func(v int) string { return ipmi.SensorUnit(v).String() },
		"ipmi.BodyCode":                  func(v int) string { return ipmi.BodyCode(v).String() },
		"ipmi.SlaveAddress":              func(v int) string { return ipmi.SlaveAddress(v).String() },
		"ipmi.PrivilegeLevel":            func(v int) string { return ipmi.PrivilegeLevel(v).String() },
		"ipmi.NetworkFunction":           func(v int) string { return ipmi.NetworkFunction(v).String() },
		"ipmi.CommandNumber":             func(v int) string { return ipmi.CommandNumber(v).String() },
		"ipmi.SoftwareID":                func(v int) string { return ipmi.SoftwareID(v).String() },
		"ipmi.AnalogDataFormat":          func(v int) string { return ipmi.AnalogDataFormat(v).String() },
		"ipmi.CompletionCode":            func(v int) string { return ipmi.CompletionCode(v).String() },
		"ipmi.IntegrityAlgorithm":        func(v int) string { return ipmi.IntegrityAlgorithm(v).String() },
		"ipmi.SensorDirection":           func(v int) string { return ipmi.SensorDirection(v).String() },
		"ipmi.RateUnit":                  func(v int) string { return ipmi.RateUnit(v).String() },
		"ipmi.AuthenticationAlgorithm":   func(v int) string { return ipmi.AuthenticationAlgorithm(v).String() },
		"dcmi.SystemPowerStatisticsMode": func(v int) string { return dcmi.SystemPowerStatisticsMode(v).String() },
		"dcmi.CapabilitiesParameter":     func(v int) string { return dcmi.CapabilitiesParameter(v).String() },
		"ipmi.Operation": func(v int) string {
			return ipmi.Operation{Function: ipmi.NetworkFunction(v >> 2), Command: ipmi.CommandNumber(v), Body: ipmi.BodyCode(v)}.String()
		},
		"ipmi.PayloadDescriptor": func(v int) string {
			return ipmi.PayloadDescriptor{PayloadType: ipmi.PayloadType(v & 0x3f), PayloadID: uint16(v)}.String()
		},
		"ipmi.CipherSuite": func(v int) string {
			return ipmi.CipherSuite{AuthenticationAlgorithm: ipmi.AuthenticationAlgorithm(v & 0x3f), IntegrityAlgorithm: ipmi.IntegrityAlgorithm(v >> 2), ConfidentialityAlgorithm: ipmi.ConfidentialityAlgorithm(v >> 4)}.String()
		},
		"bmc.FirmwareVersion": func(v int) string {
			return bmc.FirmwareVersion(&ipmi.GetDeviceIDRsp{Manufacturer: []iana.Enterprise{iana.EnterpriseIntel, iana.EnterpriseDell, iana.EnterpriseQuanta, iana.EnterpriseSuperMicro, 0}[v%5], MajorFirmwareRevision: uint8(v), MinorFirmwareRevision: uint8(v), AuxiliaryFirmwareRevision: [4]byte{byte(v), byte(v >> 1), byte(v), 0xFF}})
		},
	}
}

func aesCrafted() [][]byte {
	var out [][]byte
	c, _ := aes.NewCipher(aesKey[:])
	for blocks := 1; blocks <= 3; blocks++ {
		for padLen := 0; padLen < 256; padLen++ {
			plainLen := 16 * blocks
			full := make([]byte, 16+plainLen) // IV + plaintext as the decoder sees it after decryption
			for i := range full {
				full[i] = 0x3C
			}
			full[len(full)-1] = byte(padLen)
			// validator reads full[padStart .. padStart+padLen) expecting 1,2,3..
			padStart := len(full) - padLen - 1
			v := byte(1)
			for i := padStart; i < padStart+padLen; i++ {
				if i >= 0 && i < len(full)-1 {
					full[i] = v
				}
				v++
			}
			iv := full[:16]
			ct := make([]byte, plainLen)
			cipher.NewCBCEncrypter(c, iv).CryptBlocks(ct, full[16:])
			out = append(out, append(append([]byte{}, iv...), ct...))
		}
	}
	return out
}

func runC05(r *rep.R) {
	reg := decLayers()
	r.SetRule("layer level: for each of the decodable layers, inputs are (i) every length 0..MaxLen x 4 fill patterns, (ii) every base encoding with every position set to every one of 256 values, (iii) every truncation and 1..3-byte extension of every base, (iv) pairs of positions over {00,01,7F,80,FF} for short bases, (v) crafted inputs straddling length checks (wrapper length field x remaining bytes, AES pad-length byte 0..255 x 1..3 blocks with the IV shaped as the validator expects, messages of every length for every NetFn class); each input is decoded on an exact-capacity slice under recover and as a receive-buffer window under two poison fills; protocol level: see below. distinct = distinct (layer, input)")
	if miss := missingLayers(reg); len(miss) > 0 {
		r.Cap("decoders present in /repo but not in the harness registry: %v", miss)
	}
	var idx int64
	do := func(l decLayer, in []byte) {
		idx++
		if !r.Mine(idx) {
			return
		}
		k, msg := c05Decode(l, in)
		r.Eval(rep.H(l.Name, in), true)
		if k != "" {
			r.Outcome("violation")
			r.Violate(k, msg, "c05layer", c05Case{Layer: l.Name, Input: in}, nil)
			return
		}
		r.Outcome("layer:decoded-or-error")
		if r.WantSample() && len(in) > 4 && idx%97 == 0 {
			r.Sample(map[string]any{"layer": l.Name, "input_hex": fmt.Sprintf("%x", in)})
		}
	}
	for _, l := range reg {
		maxLen := l.MaxLen
		if strings.HasPrefix(l.Name, "ipmi.V2Session") || l.Name == "ipmi.Message" || l.Name == "ipmi.V1Session" {
			if thorough(r) {
				maxLen = 512
			} else {
				maxLen = 128
			}
		}
		for n := 0; n <= maxLen; n++ {
			for _, f := range [][2]byte{{0x00, 0}, {0xFF, 0}, {0x00, 1}, {0x06, 0}} {
				do(l, pattern(n, f[0], f[1]))
			}
		}
		for _, base := range l.Bases {
			for n := 0; n < len(base); n++ {
				do(l, base[:n])
			}
			for _, ext := range [][]byte{{0x00}, {0xFF}, {0xFF, 0xFF}, {0x07, 0x07, 0x07}} {
				do(l, cat(base, ext))
			}
			for pos := range base {
				for v := 0; v < 256; v++ {
					if byte(v) == base[pos] {
						continue
					}
					m := append([]byte{}, base...)
					m[pos] = byte(v)
					do(l, m)
					// the same mutation with the tail cut right after it and at the end-1
					if v%16 == 0 || v == 0xFF || v < 4 {
						do(l, m[:pos+1])
						if len(m) > 1 {
							do(l, m[:len(m)-1])
						}
					}
				}
			}
			if len(base) <= 48 || thorough(r) {
				vals := []byte{0x00, 0x01, 0x7F, 0x80, 0xFF}
				for p1 := 0; p1 < len(base); p1++ {
					for p2 := p1 + 1; p2 < len(base); p2++ {
						for _, v1 := range vals {
							for _, v2 := range vals {
								m := append([]byte{}, base...)
								m[p1], m[p2] = v1, v2
								do(l, m)
							}
						}
					}
				}
			}
		}
		switch l.Name {
		case "ipmi.AES128CBC":
			for _, in := range aesCrafted() {
				do(l, in)
			}
		case "ipmi.V2Session", "ipmi.V2Session(authenticated)":
			// length field x actual remaining bytes
			for _, flags := range []byte{0x00, 0x40, 0x80, 0xC0, 0x02, 0x42, 0x10} {
				for _, lf := range []int{0, 1, 2, 3, 4, 5, 12, 13, 14, 15, 16, 17, 40, 255, 256, 0x7FFF, 0xFFFF} {
					for rem := 0; rem <= 40; rem++ {
						hdr := []byte{0x06, flags}
						if flags&0x3f == 0x02 {
							hdr = append(hdr, 1, 2, 3, 4, 5, 6)
						}
						hdr = append(hdr, 1, 0, 0, 0, 2, 0, 0, 0, byte(lf), byte(lf>>8))
						do(l, cat(hdr, pattern(rem, 0xFF, 0)))
						do(l, cat(hdr, pattern(rem, 0x07, 0)))
					}
				}
			}
			// authenticated wrappers followed by long runs of 0xFF (integrity pad
			// scan): every run length around the 8-bit boundary and up to the
			// receive buffer
			for _, plen := range []int{0, 1, 7, 16} {
				for _, run := range []int{250, 253, 254, 255, 256, 257, 258, 259, 260, 300, 400, 480, 494} {
					for _, tail := range [][]byte{nil, {0x07}, {0x03, 0x07}, pattern(12, 0x11, 1)} {
						hdr := []byte{0x06, 0x40, 1, 0, 0, 0, 2, 0, 0, 0, byte(plen), 0}
						in := cat(hdr, pattern(plen, 0x20, 1), pattern(run, 0xFF, 0), tail)
						if len(in) <= 512 {
							do(l, in)
						}
					}
				}
			}
		case "ipmi.Message":
			for _, nf := range []byte{0x00, 0x01, 0x06, 0x07, 0x2c, 0x2d, 0x2e, 0x2f, 0x30, 0x3f} {
				for n := 0; n <= 12; n++ {
					hdr := []byte{0x81, nf << 2, 0, 0x20, 0x04, 0x01}
					hdr[2] = byte(-(int(hdr[0]) + int(hdr[1])))
					body := pattern(n, 0, 0)
					m := cat(hdr, body)
					s := 0
					for _, b := range m[3:] {
						s += int(b)
					}
					m = append(m, byte(-s))
					do(l, m)
					do(l, m[:len(m)-1]) // last body byte taken as the checksum
				}
			}
		case "ipmi.FullSensorRecord":
			// type/length byte x remaining bytes
			for tl := 0; tl < 256; tl++ {
				for rem := 0; rem <= 32; rem++ {
					if !thorough(r) && rem > 4 && rem < 14 && tl&0x1f < 0x1c && tl&0x1f > 4 {
						continue
					}
					do(l, fsrBody(byte(tl), pattern(rem, 0x41, 1)))
				}
			}
		case "dcmi.GetDCMISensorInfoRsp":
			for cnt := 0; cnt < 256; cnt++ {
				for rem := 0; rem <= 32; rem++ {
					do(l, cat([]byte{7, byte(cnt)}, pattern(rem, 1, 1)))
				}
			}
		case "dcmi.GetDCMICapabilitiesInfoEnhancedSystemPowerStatisticsAttrsRsp":
			for cnt := 0; cnt < 256; cnt++ {
				for rem := 0; rem <= 32; rem++ {
					do(l, cat([]byte{1, 5, 2, byte(cnt)}, pattern(rem, 0x41, 1)))
				}
			}
		case "ipmi.RAKPMessage1":
			for ul := 0; ul < 256; ul++ {
				for rem := 0; rem <= 20; rem++ {
					do(l, cat([]byte{0, 0, 0, 0, 1, 0, 0, 0}, pattern(16, 1, 1), []byte{0x14, 0, 0, byte(ul)}, pattern(rem, 0x41, 1)))
				}
			}
		}
	}
	// every value of every named wire type through its String method (used in
	// error texts and metric labels)
	for name, f := range c05Stringers() {
		for v := 0; v < 256; v++ {
			idx++
			if !r.Mine(idx) {
				continue
			}
			var out string
			p := guard(func() { out = f(v) })
			r.Eval(rep.H("stringer", name, v), true)
			if p != "" || strings.Contains(out, "PANIC=") {
				r.Outcome("violation")
				r.Violate("C05/stringer/"+name+"/panic", fmt.Sprintf("%s(%#02x).String(): %s %s", name, v, p, out), "c05stringer", map[string]any{"type": name, "value": v}, nil)
			} else {
				r.Outcome("stringer:renders")
			}
		}
	}
	r.Bound("layers", len(reg))
	runC05Proto(r, &idx)
	r.Assume("a watchdog per decode turns non-termination into a violation; no decoder loops on data-dependent bounds other than length-bounded pad scans")
	r.Assume("byte strings are enumerated structurally (lengths, every single-byte and many two-byte deviations from valid encodings, crafted check-straddling inputs), not all 256^512 strings")
}
