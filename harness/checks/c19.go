//go:build sched

package checks

import (
	"crypto/rand"
	"encoding/json"
	"fmt"
	"os"
	"strings"

	"github.com/gebn/bmc"
	"github.com/gebn/bmc/pkg/dcmi"
	"github.com/gebn/bmc/pkg/ipmi"
	"github.com/gebn/bmc/pkg/vsched"
	"github.com/google/gopacket"

	"verif/env"
	"verif/ref"
	"verif/rep"
)

// C19: independent connections can be used concurrently without interference.
// Deciding step: a cooperative scheduler runs 2-3 logical threads, each with
// its own connection and reference BMC, one at a time; instrumented library
// code yields before every statement that mentions a package-level variable,
// and the transport yields at the entry and exit of every Send. All
// interleavings with at most k preemptions are enumerated (DFS).

func init() {
	register(&Check{ID: "C19", Run: runC19, Shards: 16, MinOutcomes: 1})
	Replayers["c19"] = func(raw json.RawMessage) (string, bool) {
		var c c19Replay
		json.Unmarshal(raw, &c)
		solo := c19Solos(c.Workloads)
		x := c19Run(c.Workloads, c.Choices)
		k, msg := c19Judge(c.Workloads, x, solo, vsched.Dump())
		return k + " " + msg, k != ""
	}
}

type c19Replay struct {
	Workloads []int    `json:"workloads"`
	Choices   []int    `json:"choices"`
	Schedule  []string `json:"schedule"`
}

// ---- scheduler -------------------------------------------------------------

type sthread struct {
	id     int
	resume chan struct{}
	done   bool
}

type spoint struct {
	enabled             []int // thread ids in canonical order
	runningStillEnabled bool
	loc                 string
}

type sexec struct {
	choices []int
	points  []spoint
	obs     []string // per-thread observation
	err     string
	order   []string // thread id + location per step (for replay files)
}

type sched struct {
	threads []*sthread
	cur     *sthread
	yield   chan string // "" = thread finished
}

func (s *sched) point(loc string) {
	t := s.cur
	s.yield <- loc
	<-t.resume
}

type threadReader struct {
	s       *sched
	streams []*env.CounterReader
}

func (t *threadReader) Read(p []byte) (int, error) {
	id := 0
	if t.s.cur != nil {
		id = t.s.cur.id
	}
	return t.streams[id].Read(p)
}

// ---- workloads ---------------------------------------------------------------

var c19Workloads = []string{"handshake-default-suites+GetDeviceID", "session:GetDeviceID+GetChassisStatus", "session:dcmi.GetPowerReading", "session:RetrieveSDRRepository", "session:SetPrivilege+Close", "sessionless:GetSystemGUID+GetChannelAuthCaps",
	"session:dcmi.GetSensorInfo", "session:SensorReader.Read(linearised)", "sessionless:RetrieveSupportedCipherSuites+dcmi.Capabilities", "session:commands-refused-with-unusual-codes"}

// c19NeedsSession lists the workloads that run on a session prepared beforehand.
var c19NeedsSession = map[int]bool{1: true, 2: true, 3: true, 4: true, 6: true, 7: true, 9: true}

type c19Thread struct {
	w    *World
	sess *bmc.V2Session
	out  strings.Builder
}

// c19Creds: the callers keep their passwords in one buffer (as read from one
// credentials file); each goroutine's password slice has the later entries as
// spare capacity behind it.
var c19Creds [16 * 12]byte

func c19ResetCreds() {
	for i := range c19Creds {
		c19Creds[i] = '|'
	}
	for slot := 0; slot < 16; slot++ {
		copy(c19Creds[slot*12:], fmt.Sprintf("password-%d", slot))
	}
}

func c19CallerPw(slot int) []byte {
	n := len(fmt.Sprintf("password-%d", slot))
	return c19Creds[slot*12 : slot*12+n]
}

func c19Config(slot int) ref.Config {
	cfg := defaultConfig()
	cfg.Password = []byte(fmt.Sprintf("password-%d", slot))
	cfg.SIDC = 0x1000 + uint32(slot)
	cfg.RC = arr16(byte(0x20+slot), 3)
	cfg.GUID = arr16(byte(0x60+slot), 1)
	cfg.DeviceID = append([]byte{}, cfg.DeviceID...)
	cfg.DeviceID[0] = byte(0x30 + slot)
	cfg.Chassis = []byte{byte(0x20 + slot), 0x10, 0x40, byte(slot)}
	cfg.SystemGUID = arr16(byte(0xB0+slot), 2)
	cfg.PowerReading = append([]byte{}, cfg.PowerReading...)
	cfg.PowerReading[0] = byte(100 + slot)
	cfg.Sensors = map[byte][]byte{0x37: {byte(0x40 + slot*9), 0xC0, 0x00}}
	cfg.DCMISensors = map[byte][]uint16{0x37: {uint16(0x10 + slot), uint16(0x20 + slot)}, 0x03: {uint16(0x30 + slot)}, 0x07: {}}
	if slot%2 == 1 {
		// an older BMC: only the DCMI-specific entity IDs know sensors
		cfg.DCMISensors = map[byte][]uint16{0x40: {uint16(0x50 + slot)}, 0x41: {uint16(0x60 + slot), uint16(0x61 + slot)}, 0x42: {}}
		// ... and it advertises suite 3 only
		cfg.CipherSuiteData = csData(csRecOEM, csRec3)
	}
	cfg.DCMIPageSize = 1
	cfg.Repo = &ref.Repo{LastAdd: 100, LastErase: 50, Recs: []ref.SDRRec{
		{ID: uint16(1 + slot), Data: fsrBytes(uint16(1+slot), byte(slot), fmt.Sprintf("T%d", slot))},
		{ID: uint16(0x100 + slot), Data: fsrBytes(uint16(0x100+slot), byte(slot+1), fmt.Sprintf("Inlet%d", slot))},
		// names in the two packed encodings, different for every BMC
		{ID: uint16(0x200 + slot), Data: fsrBytesPacked(uint16(0x200+slot), byte(slot+2), 1, pattern(9+slot%3, byte(slot), 3))},
		{ID: uint16(0x300 + slot), Data: fsrBytesPacked(uint16(0x300+slot), byte(slot+3), 2, pattern(7+slot%4, byte(0x21+slot*5), 7))},
	}}
	return cfg
}

// c19Prepare builds the thread's world and (outside the scheduler) its session.
func c19Prepare(slot, workload int, y func(string), afterWorld func()) *c19Thread {
	cfg := c19Config(slot)
	c19ResetCreds()
	if slot == 0 {
		// an application that closed an earlier connection twice (Close is
		// documented as safe to defer and often also called explicitly): nothing
		// of that connection may be handed to the connections made afterwards
		pre := newWorld(c19Config(15), nil, nil)
		pre.Conn.GetSystemGUID(pre.Ctx)
		pre.Conn.Close()
		pre.Conn.Close()
	}
	th := &c19Thread{w: newWorld(cfg, nil, nil)}
	afterWorld() // newWorld installs its own rand.Reader; put the per-thread one back
	th.w.T.Yield = y
	// horizon: no workload needs more than 40 transmissions; beyond that the
	// caller's context expires so that a disturbed retry loop terminates
	sends := 0
	w := th.w
	w.T.Menu = func(t *env.Transport, req []byte) []env.Answer {
		sends++
		if sends > 40 {
			w.Cancel()
		}
		return []env.Answer{env.Honest()}
	}
	if c19NeedsSession[workload] {
		s, err := th.w.Conn.NewV2Session(th.w.Ctx, &bmc.V2SessionOpts{SessionOpts: bmc.SessionOpts{Username: fmt.Sprintf("user%d", slot), Password: c19CallerPw(slot), MaxPrivilegeLevel: ipmi.PrivilegeLevelAdministrator}, CipherSuites: []ipmi.CipherSuite{ipmi.CipherSuite17}})
		if err != nil {
			panic("C19 harness: session setup: " + err.Error())
		}
		th.sess = s
	}
	return th
}

func (th *c19Thread) run(slot, workload int) {
	w := th.w
	o := &th.out
	switch workload {
	case 0:
		s, err := w.Conn.NewV2Session(w.Ctx, &bmc.V2SessionOpts{SessionOpts: bmc.SessionOpts{Username: fmt.Sprintf("user%d", slot), Password: c19CallerPw(slot), MaxPrivilegeLevel: ipmi.PrivilegeLevelOperator}})
		fmt.Fprintf(o, "session err=%v;", err)
		if err == nil {
			fmt.Fprintf(o, "suite=%v/%v/%v sik=%x;", s.AuthenticationAlgorithm, s.IntegrityAlgorithm, s.ConfidentialityAlgorithm, s.SIK)
			d, err := s.GetDeviceID(w.Ctx)
			fmt.Fprintf(o, "dev=%+v err=%v;", d, err)
		}
	case 1:
		d, err := th.sess.GetDeviceID(w.Ctx)
		fmt.Fprintf(o, "dev=%+v err=%v;", d, err)
		c, err := th.sess.GetChassisStatus(w.Ctx)
		fmt.Fprintf(o, "chassis=%+v err=%v;", c, err)
	case 2:
		p, err := dcmi.NewSessionCommander(th.sess).GetPowerReading(w.Ctx, &dcmi.GetPowerReadingReq{Mode: dcmi.SystemPowerStatisticsModeNormal})
		fmt.Fprintf(o, "power=%+v err=%v;", p, err)
	case 3:
		repo, err := bmc.RetrieveSDRRepository(w.Ctx, th.sess)
		fmt.Fprintf(o, "sdr err=%v n=%d;", err, len(repo))
		for _, id := range []int{1 + slot, 0x100 + slot, 0x200 + slot, 0x300 + slot} {
			if r, ok := repo[ipmi.RecordID(id)]; ok {
				fmt.Fprintf(o, "%#x=%s/%d/%v;", id, r.Identity, r.Number, r.ConversionFactors)
			}
		}
	case 4:
		l, err := th.sess.SetSessionPrivilegeLevel(w.Ctx, ipmi.PrivilegeLevelOperator)
		fmt.Fprintf(o, "priv=%v err=%v;", l, err)
		fmt.Fprintf(o, "close err=%v;", th.sess.Close(w.Ctx))
	case 6:
		si, err := dcmi.GetSensorInfo(w.Ctx, th.sess)
		fmt.Fprintf(o, "sensorinfo=%+v err=%v;", si, err)
	case 7:
		var fsr ipmi.FullSensorRecord
		rec := c15Record(c15Case{Fmt: slot % 3, Lin: 8 + slot%3, M: 3 + slot, B: -2, K1: 1, K2: -1})
		if err := fsr.DecodeFromBytes(rec, gopacket.NilDecodeFeedback); err != nil {
			fmt.Fprintf(o, "fsr err=%v;", err)
			break
		}
		rd, err := bmc.NewSensorReader(&fsr)
		fmt.Fprintf(o, "reader err=%v;", err)
		if err == nil {
			for i := 0; i < 2; i++ {
				v, err := rd.Read(w.Ctx, th.sess)
				fmt.Fprintf(o, "read=%v err=%v;", v, err)
			}
		}
	case 8:
		recs, err := bmc.RetrieveSupportedCipherSuites(w.Ctx, w.Conn)
		fmt.Fprintf(o, "suites=%v err=%v;", recs, err)
		c, err := dcmi.NewSessionlessCommander(w.Conn).GetDCMICapabilitiesInfoEnhancedSystemPowerStatisticsAttrs(w.Ctx)
		fmt.Fprintf(o, "caps=%+v err=%v;", c, err)
	case 9:
		// sensors the BMC does not know: completion code 0xCB; an unknown command: 0xC1
		_, err := th.sess.GetSensorReading(w.Ctx, byte(0x90+slot))
		fmt.Fprintf(o, "unknown sensor err=%v;", err)
		code, err := th.sess.SendCommand(w.Ctx, &rawCmd{op: ipmi.Operation{Function: 0x30, Command: ipmi.CommandNumber(0x10 + slot)}, body: []byte{byte(slot)}})
		fmt.Fprintf(o, "raw code=%v err=%v;", byte(code), err)
	case 5:
		g, err := w.Conn.GetSystemGUID(w.Ctx)
		fmt.Fprintf(o, "guid=%x err=%v;", g, err)
		a, err := w.Conn.GetChannelAuthenticationCapabilities(w.Ctx, &ipmi.GetChannelAuthenticationCapabilitiesReq{ExtendedData: true, Channel: ipmi.ChannelPresentInterface, MaxPrivilegeLevel: ipmi.PrivilegeLevelUser})
		fmt.Fprintf(o, "caps=%+v err=%v;", a, err)
	}
}

func (th *c19Thread) observation() string {
	var b strings.Builder
	b.WriteString(th.out.String())
	b.WriteString("|bmc:")
	for _, rx := range th.w.BMC.Log {
		fmt.Fprintf(&b, "%x", rx.Raw)
		if len(rx.Problems) > 0 {
			fmt.Fprintf(&b, "!%v", rx.Problems)
		}
		b.WriteString(",")
	}
	return b.String()
}

// c19Run executes the workloads under the scheduler following prefix.
func c19Run(workloads []int, prefix []int) *sexec {
	s := &sched{yield: make(chan string)}
	x := &sexec{}
	rd := &threadReader{s: s}
	ths := make([]*c19Thread, len(workloads))
	// preparation runs unscheduled, one thread at a time, each on its own stream
	for i, wl := range workloads {
		rd.streams = append(rd.streams, &env.CounterReader{Seed: uint64(1000 + i)})
		t := &sthread{id: i, resume: make(chan struct{})}
		s.threads = append(s.threads, t)
		s.cur = t
		rand.Reader = rd
		ths[i] = c19Prepare(i, wl, func(loc string) {
			if s.cur != nil && vschedActive {
				s.point(loc)
			}
		}, func() { rand.Reader = rd })
	}
	s.cur = nil
	vschedActive = true
	vsched.SetHook(func(loc string) { s.point(loc) })
	defer func() { vsched.SetHook(nil); vschedActive = false }()
	for i, wl := range workloads {
		i, wl := i, wl
		t := s.threads[i]
		go func() {
			<-t.resume
			p := guard(func() { ths[i].run(i, wl) })
			if p != "" {
				fmt.Fprintf(&ths[i].out, "PANIC %s;", p)
			}
			t.done = true
			s.yield <- ""
		}()
	}
	step := 0
	for {
		// canonical order: the running thread first if it can continue, then ascending ids
		var enabled []int
		still := s.cur != nil && !s.cur.done
		if still {
			enabled = append(enabled, s.cur.id)
		}
		for _, t := range s.threads {
			if !t.done && !(still && t.id == s.cur.id) {
				enabled = append(enabled, t.id)
			}
		}
		if len(enabled) == 0 {
			break
		}
		ch := 0
		if step < len(prefix) {
			ch = prefix[step]
			if ch >= len(enabled) {
				x.err = fmt.Sprintf("replay divergence at step %d: choice %d of %d", step, ch, len(enabled))
				ch = 0
			}
		}
		x.points = append(x.points, spoint{enabled: enabled, runningStillEnabled: still})
		x.choices = append(x.choices, ch)
		s.cur = s.threads[enabled[ch]]
		s.cur.resume <- struct{}{}
		loc := <-s.yield
		x.points[len(x.points)-1].loc = loc
		x.order = append(x.order, fmt.Sprintf("t%d@%s", s.cur.id, loc))
		step++
		if step > 200000 {
			x.err = "runaway execution (more than 200000 scheduling steps)"
			break
		}
	}
	for _, th := range ths {
		x.obs = append(x.obs, th.observation())
	}
	return x
}

var vschedActive bool

// c19Solos runs every workload alone in its slot.
func c19Solos(workloads []int) []string {
	out := make([]string, len(workloads))
	for i := range workloads {
		// same slots, but only thread i runs: others are given the empty workload
		solo := make([]int, len(workloads))
		for j := range solo {
			solo[j] = -1
		}
		solo[i] = workloads[i]
		x := c19Run(solo, nil)
		out[i] = x.obs[i]
	}
	return out
}

func c19Judge(workloads []int, x *sexec, solo []string, dump0 string) (string, string) {
	if x.err != "" {
		return "C19/scheduler", x.err
	}
	for i := range workloads {
		if x.obs[i] != solo[i] {
			return "C19/thread-differs-from-solo/" + c19Workloads[workloads[i]], fmt.Sprintf("thread %d (%s) running alongside %v observed\n  %s\nalone it observes\n  %s", i, c19Workloads[workloads[i]], workloads, clip(x.obs[i]), clip(solo[i]))
		}
	}
	if d := vsched.Dump(); d != dump0 {
		return "C19/package-level-state-changed", "package-level variables differ from their values after init: " + firstDiff(dump0, d)
	}
	return "", ""
}

func clip(s string) string {
	if len(s) > 1500 {
		return s[:1500] + "..."
	}
	return s
}

func firstDiff(a, b string) string {
	la, lb := strings.Split(a, "\n"), strings.Split(b, "\n")
	for i := range la {
		if i >= len(lb) || la[i] != lb[i] {
			x, y := la[i], ""
			if i < len(lb) {
				y = lb[i]
			}
			j := 0
			for j < len(x) && j < len(y) && x[j] == y[j] {
				j++
			}
			lo := max(0, j-80)
			return fmt.Sprintf("package %s: ...%s... became ...%s...", strings.SplitN(x, ":", 2)[0], x[lo:min(len(x), j+120)], y[lo:min(len(y), j+120)])
		}
	}
	return "(length)"
}

func (x *sexec) preemptionsBefore(i int) int {
	n := 0
	for j := 0; j < i; j++ {
		if x.choices[j] != 0 && x.points[j].runningStillEnabled {
			n++
		}
	}
	return n
}

func runC19(r *rep.R) {
	r.SetRule("a case is one interleaving: 2 (thorough also 3) logical threads, each with its own connection, session and reference BMC, run one of 6 workloads (handshake through the default-suite/discovery path, two commands, DCMI group-extension command, SDR walk, privilege change + close, session-less commands); scheduling points: before every statement of gebn/bmc that mentions a package-level variable (inserted by parsing the current tree, build overlay) and at entry/exit of every transport Send; all interleavings with <= k preemptions enumerated by DFS; oracle: each thread's returned values and the raw datagrams its BMC received equal the same workload run alone, and a %#v dump of all package-level variables is unchanged")
	if b, err := os.ReadFile(os.Getenv("VERIF_INSTRUMENT_INFO")); err == nil {
		var info map[string]any
		if json.Unmarshal(b, &info) == nil {
			r.Bound("instrumentation", info)
		}
	}
	if r.Shard == 0 {
		// companion: what the free-running race-detector pass reported
		if b, err := os.ReadFile(os.Getenv("VERIF_RACE_RESULT")); err == nil {
			out := string(b)
			switch {
			case strings.Contains(out, "WARNING: DATA RACE"):
				i := strings.Index(out, "WARNING: DATA RACE")
				r.Violate("C19/race-detector", "the free-running pass under the race detector reported:\n"+clip(out[i:]), "c19race", map[string]string{"report": clip(out[i:])}, nil)
			case strings.Contains(out, "MISMATCH"):
				i := strings.Index(out, "MISMATCH")
				r.Violate("C19/free-running-result-mismatch", clip(out[i:]), "c19race", map[string]string{"report": clip(out[i:])}, nil)
			case !strings.Contains(out, "racepass ok"):
				r.Infra("race companion produced no result: %s", clip(out))
			default:
				r.Count("race_pass_runs_ok", int64(strings.Count(out, "racepass ok")))
				r.Note("free-running -race companion: %s", strings.ReplaceAll(strings.TrimSpace(out), "\n", "; "))
			}
		} else {
			r.Infra("race companion result missing (%v)", err)
		}
	}
	dump0 := vsched.Dump()
	if len(dump0) < 1000 {
		r.Infra("package-level dump is missing: the binary was not built with the instrumentation overlay")
		return
	}
	var idx int64
	explore := func(workloads []int, bound int) {
		solo := c19Solos(workloads)
		tag := fmt.Sprint(workloads)
		maxPoints, execs := 0, 0
		stop := false
		// Work is divided between worker processes by subtree: at the first
		// deviation when bound is 1, at the second when it is larger (subtrees under
		// one first deviation differ in size by orders of magnitude; every worker then
		// runs the few hundred first-level executions itself, and only the owner of
		// each judges it).
		shardLevel := 0
		if bound > 1 {
			shardLevel = 1
		}
		var rec func(x *sexec, from int, level int)
		check := func(x *sexec) {
			execs++
			r.Trace()
			r.Eval(rep.H(tag, fmt.Sprint(x.choices)), true)
			prev := rep.H(tag, "init")
			for i, p := range x.points {
				st := rep.H(tag, i, p.loc, fmt.Sprint(p.enabled))
				r.State(st)
				r.Transition(rep.H(prev, st, x.choices[i]))
				prev = rep.H(st, x.choices[i])
			}
			if len(x.points) > maxPoints {
				maxPoints = len(x.points)
			}
			k, msg := c19Judge(workloads, x, solo, dump0)
			if k == "" {
				switches := 0
				for i := 1; i < len(x.order); i++ {
					if x.order[i][:2] != x.order[i-1][:2] {
						switches++
					}
				}
				if switches > len(workloads)-1 {
					r.Outcome("interleaved:equals-solo")
				} else {
					r.Outcome("sequential:equals-solo")
				}
				if r.WantSample() && switches > 2 {
					r.Sample(map[string]any{"workloads": workloads, "choices_nonzero_at": nonzero(x.choices), "steps": len(x.points), "context_switches": switches})
				}
				return
			}
			r.Outcome("violation")
			stop = true // one counterexample per workload set is enough; the first has the fewest preemptions
			choices := append([]int{}, x.choices...)
			r.Violate(k, msg, "c19", c19Replay{Workloads: workloads, Choices: choices, Schedule: tail(x.order, 60)}, func() bool {
				k2, _ := c19Judge(workloads, c19Run(workloads, choices), solo, dump0)
				return k2 == k
			})
		}
		rec = func(x *sexec, from int, level int) {
			for i := from; i < len(x.points) && !stop; i++ {
				p := x.points[i]
				cost := x.preemptionsBefore(i)
				for alt := 1; alt < len(p.enabled) && !stop; alt++ {
					c := cost
					if p.runningStillEnabled {
						c++
					}
					if c > bound {
						continue
					}
					own := true
					if level <= shardLevel {
						idx++
						own = r.Mine(idx)
						if !own && level == shardLevel {
							continue
						}
					}
					y := c19Run(workloads, append(append([]int{}, x.choices[:i]...), alt))
					if own {
						check(y)
					}
					rec(y, i+1, level+1)
				}
			}
		}
		idx++
		x := c19Run(workloads, nil)
		if r.Mine(idx) {
			check(x)
		}
		rec(x, 0, 0)
		_ = maxPoints
	}
	k := 1
	if thorough(r) {
		k = 2
	}
	for a := 0; a < len(c19Workloads); a++ {
		for b := a; b < len(c19Workloads); b++ {
			explore([]int{a, b}, k)
		}
	}
	// deeper bound on the pairs that share the most code
	for _, p := range [][]int{{1, 1}, {2, 5}, {4, 4}} {
		explore(p, k+1)
	}
	if thorough(r) {
		for _, t := range [][]int{{1, 2, 5}, {0, 1, 4}, {3, 3, 1}} {
			explore(t, 2)
		}
	} else {
		explore([]int{1, 2, 5}, 1)
	}
	r.Bound("preemptions", k)
	r.Assume("sequentially consistent interleavings at the instrumented points; weak-memory effects and state inside dependencies (gopacket registry, Prometheus, which have their own locks) are left to the free-running race-detector companion pass")
	r.Assume("independent connections share only what is reachable from package-level variables, so yielding where those are mentioned (and at transport calls) suffices")
}

func nonzero(ch []int) []int {
	var out []int
	for i, c := range ch {
		if c != 0 {
			out = append(out, i)
		}
	}
	return out
}

func tail(s []string, n int) []string {
	if len(s) > n {
		return s[len(s)-n:]
	}
	return s
}
