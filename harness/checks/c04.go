package checks

import (
	"fmt"
	"math/bits"
	"strings"

	"verif/env"
	"verif/ref"
	"verif/rep"
)

// C04: only authentic packets addressed to this session are accepted as responses.

func init() {
	register(&Check{ID: "C04", Run: runC04, Shards: 16, MinOutcomes: 3})
	histAlphabets["forge"] = forgeAlphabet
	histJudges["C04"] = c04Judge
}

// forged value: a plausible response body that differs from the honest one
func forgedBody(rx *ref.Rx) []byte {
	b := append([]byte{}, rx.Body...)
	if len(b) == 0 {
		return b
	}
	// keep a DCMI body code intact, change the value bytes
	start := 0
	if rx.Msg != nil && rx.Msg.NetFn == 0x2c {
		start = 1
	}
	for i := start; i < len(b); i++ {
		b[i] ^= 0x5A
	}
	return b
}

func forgeAns(name string, authentic bool, f func(t *env.Transport, rx *ref.Rx, s *ref.Session) []byte) histAnswer {
	cls := clsUndecodable
	// the forger answers the request it sees; if the BMC could not make sense
	// of this transmission (a retransmission the library got wrong), it forges
	// an answer to the last request that was understood
	return histAnswer{Answer: env.Raw(name, func(t *env.Transport, rx *ref.Rx) []byte {
		if rx != nil && (rx.Sess == nil || rx.Msg == nil) {
			rx = forgerView(t, rx)
		}
		if rx == nil || rx.Sess == nil || rx.Msg == nil {
			return nil
		}
		return f(t, rx, rx.Sess)
	}), Class: cls, Own: authentic}
}

// forgerView: the BMC could not make sense of this transmission (a
// retransmission the library got wrong, a request signed with the wrong key, a
// session the BMC has closed). The forger still answers it: it reads the
// request with the keys of the most recent session (a forger inside the BMC's
// trust domain; the forgeries themselves are judged by what they lack) and
// takes the BMC's answer to that command as the body to falsify.
func forgerView(t *env.Transport, rx *ref.Rx) *ref.Rx {
	var cur *ref.Session
	var curID uint32
	for id, s := range t.BMC.Sessions {
		if s.K2 != nil && (cur == nil || id > curID) {
			cur, curID = s, id
		}
	}
	if cur == nil {
		return nil
	}
	p, err := ref.ParsePacket(rx.Raw, cur.IntegN)
	if err != nil || !p.Encrypted {
		if p2, err2 := ref.ParsePacket(rx.Raw, 0); err2 == nil && p2.Encrypted {
			p, err = p2, nil
		} else {
			return nil
		}
	}
	plain, _, err := ref.AESDecrypt(cur.K2, p.Payload)
	if err != nil {
		return nil
	}
	scratch := ref.NewBMC(t.BMC.Cfg)
	v := scratch.Receive(ref.BuildPacket(ref.PTIPMI, false, 0, 0, plain, nil))
	if v == nil || v.Msg == nil {
		return nil
	}
	v.Sess = cur
	return v
}

// forgeAlphabet: honest reply, the forgery catalogue, every single-bit flip
// and every truncation of the honest reply.
func forgeAlphabet(cfg histCfg, w *World) []histAnswer {
	a := []histAnswer{{Answer: env.Honest(), Class: clsFinal, Own: true}}
	wrap := func(s *ref.Session, enc, auth bool, sid uint32, payload []byte, integ func([]byte) []byte) []byte {
		s.OutSeq++
		if !auth {
			integ = nil
		}
		d := ref.BuildPacket(ref.PTIPMI, enc, sid, s.OutSeq, payload, integ)
		return d
	}
	encrypt := func(s *ref.Session, msg []byte) []byte { return ref.AESEncrypt(s.K2, s.NextIV(), msg) }
	forgedMsg := func(rx *ref.Rx) []byte { return ref.ResponseTo(rx.Msg, 0, forgedBody(rx)) }
	honestMsg := func(rx *ref.Rx) []byte { return ref.ResponseTo(rx.Msg, rx.CC, rx.Body) }
	a = append(a,
		forgeAns("forged/flag-cleared-encrypted", false, func(t *env.Transport, rx *ref.Rx, s *ref.Session) []byte {
			return wrap(s, true, false, s.HS.SIDM, encrypt(s, forgedMsg(rx)), nil)
		}),
		forgeAns("forged/flags-cleared-plaintext", false, func(t *env.Transport, rx *ref.Rx, s *ref.Session) []byte {
			return wrap(s, false, false, s.HS.SIDM, forgedMsg(rx), nil)
		}),
		forgeAns("forged/flags-cleared-plaintext-other-sid", false, func(t *env.Transport, rx *ref.Rx, s *ref.Session) []byte {
			return wrap(s, false, false, 0xDEADBEEF, forgedMsg(rx), nil)
		}),
		forgeAns("forged/flags-cleared-plaintext-sid-0", false, func(t *env.Transport, rx *ref.Rx, s *ref.Session) []byte {
			return wrap(s, false, false, 0, forgedMsg(rx), nil)
		}),
		forgeAns("forged/authcode-empty", false, func(t *env.Transport, rx *ref.Rx, s *ref.Session) []byte {
			return wrap(s, true, true, s.HS.SIDM, encrypt(s, forgedMsg(rx)), func([]byte) []byte { return nil })
		}),
		forgeAns("forged/authcode-short-by-one", false, func(t *env.Transport, rx *ref.Rx, s *ref.Session) []byte {
			return wrap(s, true, true, s.HS.SIDM, encrypt(s, forgedMsg(rx)), func(b []byte) []byte { c := s.Integ(b); return c[:len(c)-1] })
		}),
		forgeAns("forged/authcode-long-by-one", false, func(t *env.Transport, rx *ref.Rx, s *ref.Session) []byte {
			return wrap(s, true, true, s.HS.SIDM, encrypt(s, forgedMsg(rx)), func(b []byte) []byte { return append(s.Integ(b), 0) })
		}),
		forgeAns("forged/authcode-zero", false, func(t *env.Transport, rx *ref.Rx, s *ref.Session) []byte {
			return wrap(s, true, true, s.HS.SIDM, encrypt(s, forgedMsg(rx)), func(b []byte) []byte { return make([]byte, s.IntegN) })
		}),
		forgeAns("forged/authcode-wrong-key", false, func(t *env.Transport, rx *ref.Rx, s *ref.Session) []byte {
			k := append([]byte{}, s.K1...)
			k[0] ^= 1
			f, _ := ref.Integrity(s.HS.Suite.Integ, k)
			return wrap(s, true, true, s.HS.SIDM, encrypt(s, forgedMsg(rx)), f)
		}),
		forgeAns("forged/authcode-keyed-with-k2", false, func(t *env.Transport, rx *ref.Rx, s *ref.Session) []byte {
			f, _ := ref.Integrity(s.HS.Suite.Integ, s.K2)
			return wrap(s, true, true, s.HS.SIDM, encrypt(s, forgedMsg(rx)), f)
		}),
		forgeAns("forged/authcode-over-wrong-range", false, func(t *env.Transport, rx *ref.Rx, s *ref.Session) []byte {
			return wrap(s, true, true, s.HS.SIDM, encrypt(s, forgedMsg(rx)), func(b []byte) []byte { return s.Integ(b[:len(b)-1]) })
		}),
		forgeAns("forged/signed-for-other-session-id", false, func(t *env.Transport, rx *ref.Rx, s *ref.Session) []byte {
			return wrap(s, true, true, s.HS.SIDM^0x00010000, encrypt(s, forgedMsg(rx)), s.Integ)
		}),
		forgeAns("forged/signed-for-session-id-0", false, func(t *env.Transport, rx *ref.Rx, s *ref.Session) []byte {
			return wrap(s, true, true, 0, encrypt(s, forgedMsg(rx)), s.Integ)
		}),
		forgeAns("forged/unsigned-plaintext-encrypted-flag-set", false, func(t *env.Transport, rx *ref.Rx, s *ref.Session) []byte {
			return wrap(s, true, false, s.HS.SIDM, forgedMsg(rx), nil)
		}),
	)
	// signed and encrypted correctly - with the keys of the session that was
	// opened and closed on this connection before (histCfg.Prior)
	a = append(a, forgeAns("forged/signed-with-the-previous-sessions-keys", false, func(t *env.Transport, rx *ref.Rx, s *ref.Session) []byte {
		for id, old := range t.BMC.Sessions {
			if id != s.HS.SIDC && old.K1 != nil && old.Integ != nil {
				s.OutSeq++
				// encrypted under this session's K2 (so that it reads as a reply at
				// all), authenticated under the earlier session's K1
				return ref.BuildPacket(ref.PTIPMI, true, s.HS.SIDM, s.OutSeq, ref.AESEncrypt(s.K2, s.NextIV(), forgedMsg(rx)), old.Integ)
			}
		}
		return nil
	}))
	// an IPMI v1.5 session wrapper (authentication type none) around the forged
	// message: nothing in it is authenticated
	for _, which := range []string{"console-id", "bmc-id", "zero"} {
		which := which
		a = append(a, forgeAns("forged/v15-wrapper-unauthenticated-"+which, false, func(t *env.Transport, rx *ref.Rx, s *ref.Session) []byte {
			id := map[string]uint32{"console-id": s.HS.SIDM, "bmc-id": s.HS.SIDC, "zero": 0}[which]
			s.OutSeq++
			msg := forgedMsg(rx)
			d := []byte{0x06, 0x00, 0xFF, 0x07, 0x00}
			d = append(d, le32b(s.OutSeq)...)
			d = append(d, le32b(id)...)
			d = append(d, byte(len(msg)))
			return append(d, msg...)
		}))
	}
	// forgeries that need no key at all: authenticated flag set, payload in the
	// clear, a well-formed trailer whose AuthCode is empty / zeros / ones of
	// each algorithm's length
	for _, n := range []int{0, 12, 16, 20} {
		for _, fill := range []byte{0x00, 0xFF} {
			if n == 0 && fill != 0 {
				continue
			}
			n, fill := n, fill
			a = append(a, forgeAns(fmt.Sprintf("forged/keyless-plaintext-flag-set-authcode-%d-bytes-of-%02x", n, fill), false, func(t *env.Transport, rx *ref.Rx, s *ref.Session) []byte {
				return wrap(s, false, true, s.HS.SIDM, forgedMsg(rx), func([]byte) []byte { return pattern(n, fill, 0) })
			}))
		}
	}
	// valid signature, invalid confidentiality pad (by a party that has K1 and K2)
	badPad := func(name string, mk func(msg []byte) []byte) {
		a = append(a, forgeAns("forged/bad-pad/"+name, false, func(t *env.Transport, rx *ref.Rx, s *ref.Session) []byte {
			padded := mk(forgedMsg(rx))
			if padded == nil {
				return nil
			}
			var payload []byte
			if len(padded)%16 == 0 {
				payload = ref.AESEncryptRaw(s.K2, s.NextIV(), padded)
			} else {
				// not block aligned: encrypt what fits, append the rest raw
				n := len(padded) / 16 * 16
				payload = append(ref.AESEncryptRaw(s.K2, s.NextIV(), padded[:n]), padded[n:]...)
			}
			return wrap(s, true, true, s.HS.SIDM, payload, s.Integ)
		}))
	}
	padTo := func(msg []byte) (buf []byte, n int) {
		n = (16 - (len(msg)+1)%16) % 16
		if n < 3 {
			n += 16
		}
		buf = append([]byte{}, msg...)
		for i := 0; i < n; i++ {
			buf = append(buf, byte(i+1))
		}
		buf = append(buf, byte(n))
		return buf, n
	}
	badPad("first-pad-byte-wrong", func(m []byte) []byte {
		b, n := padTo(m)
		if n > 15 {
			return nil
		}
		b[len(m)] ^= 0x10
		return b
	})
	badPad("last-pad-byte-wrong", func(m []byte) []byte {
		b, n := padTo(m)
		if n > 15 {
			return nil
		}
		b[len(b)-2] ^= 0x01
		return b
	})
	badPad("pad-bytes-zero", func(m []byte) []byte {
		b, n := padTo(m)
		if n > 15 {
			return nil
		}
		for i := len(m); i < len(b)-1; i++ {
			b[i] = 0
		}
		return b
	})
	badPad("pad-length-17", func(m []byte) []byte {
		b := append([]byte{}, m...)
		for len(b)%16 != 15 {
			b = append(b, 0x01)
		}
		return append(b, 17)
	})
	badPad("pad-length-255", func(m []byte) []byte {
		b := append([]byte{}, m...)
		for len(b)%16 != 15 {
			b = append(b, 0x01)
		}
		return append(b, 255)
	})
	// several pad bytes wrong in ways that cancel in a sum, an XOR or a count
	for vi, deltas := range [][]byte{{0x80, 0x80}, {0x40, 0x40, 0x40, 0x40}, {0xFF, 0x01}, {0x01, 0xFF}, {0x10, 0xF0}, {0x55, 0x55, 0x56}} {
		deltas := deltas
		badPad(fmt.Sprintf("several-pad-bytes-wrong-%d", vi), func(m []byte) []byte {
			b, n := padTo(m)
			if n > 15 || n < len(deltas) {
				return nil
			}
			for i, d := range deltas {
				b[len(m)+i] += d
			}
			return b
		})
		badPad(fmt.Sprintf("several-pad-bytes-flipped-%d", vi), func(m []byte) []byte {
			b, n := padTo(m)
			if n > 15 || n < len(deltas) {
				return nil
			}
			for i, d := range deltas {
				b[len(b)-2-i] ^= d
			}
			return b
		})
	}
	badPad("not-block-aligned", func(m []byte) []byte {
		b, _ := padTo(m)
		return append(b, 0x01, 0x02, 0x03)
	})
	// pad length 16 (tolerated by the library when its 16 bytes are right): each
	// single pad byte wrong. The message is extended so that 16 pad bytes + the
	// length byte end on a block boundary.
	for i := 0; i < 16; i++ {
		i := i
		a = append(a, forgeAns(fmt.Sprintf("forged/bad-pad/pad16-byte%d-wrong", i), false, func(t *env.Transport, rx *ref.Rx, s *ref.Session) []byte {
			body := forgedBody(rx)
			msg := ref.ResponseTo(rx.Msg, 0, body)
			for len(msg)%16 != 15 {
				body = append(body, 0x00)
				msg = ref.ResponseTo(rx.Msg, 0, body)
			}
			padded := append([]byte{}, msg...)
			for k := 1; k <= 16; k++ {
				padded = append(padded, byte(k))
			}
			padded = append(padded, 16)
			padded[len(msg)+i] ^= 0x20
			return wrap(s, true, true, s.HS.SIDM, ref.AESEncryptRaw(s.K2, s.NextIV(), padded), s.Integ)
		}))
	}
	// pad length 16 with all sixteen bytes equal (the way other padding schemes
	// fill a whole block)
	for _, v := range []byte{0x00, 0x01, 0x0F, 0x10, 0x11, 0xFF} {
		v := v
		a = append(a, forgeAns(fmt.Sprintf("forged/bad-pad/pad16-all-bytes-%02x", v), false, func(t *env.Transport, rx *ref.Rx, s *ref.Session) []byte {
			body := forgedBody(rx)
			msg := ref.ResponseTo(rx.Msg, 0, body)
			for len(msg)%16 != 15 {
				body = append(body, 0x00)
				msg = ref.ResponseTo(rx.Msg, 0, body)
			}
			padded := append([]byte{}, msg...)
			for k := 1; k <= 16; k++ {
				padded = append(padded, v)
			}
			padded = append(padded, 16)
			return wrap(s, true, true, s.HS.SIDM, ref.AESEncryptRaw(s.K2, s.NextIV(), padded), s.Integ)
		}))
	}
	// correctly signed and encrypted, but addressed to a session ID that is a
	// rearrangement or a neighbour of the console's
	for _, f := range []struct {
		name string
		id   func(s *ref.Session) uint32
	}{
		{"byte-reversed", func(s *ref.Session) uint32 { return bits.ReverseBytes32(s.HS.SIDM) }},
		{"rotated-8", func(s *ref.Session) uint32 { return bits.RotateLeft32(s.HS.SIDM, 8) }},
		{"rotated-16", func(s *ref.Session) uint32 { return bits.RotateLeft32(s.HS.SIDM, 16) }},
		{"plus-1", func(s *ref.Session) uint32 { return s.HS.SIDM + 1 }},
		{"minus-1", func(s *ref.Session) uint32 { return s.HS.SIDM - 1 }},
		{"top-bit", func(s *ref.Session) uint32 { return s.HS.SIDM ^ 0x80000000 }},
		{"all-ones", func(s *ref.Session) uint32 { return 0xFFFFFFFF }},
		{"the-bmc-id", func(s *ref.Session) uint32 { return s.HS.SIDC }},
	} {
		f := f
		a = append(a, forgeAns("forged/signed-for-session-id-"+f.name, false, func(t *env.Transport, rx *ref.Rx, s *ref.Session) []byte {
			id := f.id(s)
			if id == s.HS.SIDM {
				id ^= 0x00000100 // (the BMC's ID may equal the console's)
			}
			return wrap(s, true, true, id, encrypt(s, forgedMsg(rx)), s.Integ)
		}))
	}
	// authentic datagram damaged in transit: every single bit, every truncation
	_ = honestMsg
	for off := 0; off < cfg.FlipLen; off++ {
		for bit := 0; bit < 8; bit++ {
			off, bit := off, bit
			a = append(a, histAnswer{Answer: env.Raw(fmt.Sprintf("flip/%d.%d", off, bit), func(t *env.Transport, rx *ref.Rx) []byte {
				d := t.BMC.Honest(rx)
				if off < len(d) {
					d[off] ^= 1 << bit
				}
				return d
			}), Class: clsUndecodable})
		}
	}
	for n := 0; n < cfg.FlipLen; n++ {
		n := n
		a = append(a, histAnswer{Answer: env.Raw(fmt.Sprintf("cut/%d", n), func(t *env.Transport, rx *ref.Rx) []byte {
			d := t.BMC.Honest(rx)
			if n < len(d) {
				d = d[:n]
			}
			return d
		}), Class: clsUndecodable})
	}
	return a
}

// c04Judge: let v be the result for the unmodified reply (taken from a solo
// run); every execution's result for the target op must be v or an error, and
// a catalogue forgery (or a flip that clears the authenticated flag) must
// never be the datagram a successful call ends on.
func c04Judge(cfg histCfg, o *histObs) []finding {
	var out []finding
	add := func(key, f string, a ...any) { out = append(out, finding{"C04/" + key, fmt.Sprintf(f, a...)}) }
	if o.HandshakeErr != "" {
		add("handshake", "handshake failed: %s", o.HandshakeErr)
		return out
	}
	base := c04Baseline(cfg)
	log := o.W.T.Log
	for pos, oi := range cfg.Ops {
		op := histOps[oi]
		r := o.Results[pos]
		if r.Panic != "" {
			add("panic/"+siteKey(r.Panic), "%s panicked under answers %v: %s", op.Name, r.Answers, r.Panic)
			continue
		}
		if !r.ErrNil {
			continue // an error is always acceptable
		}
		v := base.Results[pos]
		if r.Code != v.Code || r.Rsp != v.Rsp {
			add("changed-value/"+answerKind(r.Answers), "%s under answers %v returned code %#02x %s; the authentic reply gives code %#02x %s", op.Name, r.Answers, r.Code, r.Rsp, v.Code, v.Rsp)
			continue
		}
		// which datagram did the successful call end on?
		if r.Last > r.First {
			last := log[r.Last-1]
			tag := last.ReturnedTag
			if strings.HasPrefix(tag, "forged/") {
				add("completed-on-forged-datagram/"+strings.Split(strings.TrimPrefix(tag, "forged/"), ":")[0], "%s completed successfully on the datagram %q (answers %v)", op.Name, tag, r.Answers)
			}
			if strings.HasPrefix(tag, "cut/") {
				add("completed-on-truncated-datagram", "%s completed on the authentic reply truncated to %s bytes: whatever remains of it, the AuthCode at its end is not complete", op.Name, strings.TrimPrefix(strings.Split(tag, ":")[0], "cut/"))
			}
			if strings.HasPrefix(tag, "flip/5.6") {
				add("completed-on-forged-datagram/authenticated-flag-bit-cleared", "%s completed on the authentic reply with only the authenticated flag bit cleared (signature no longer checked)", op.Name)
			}
		}
	}
	return out
}

func answerKind(ans []string) string {
	for _, a := range ans {
		if a == "ok" || a == "ok(horizon)" {
			continue
		}
		if i := strings.IndexAny(a, "/"); i > 0 && !strings.HasPrefix(a, "forged/") {
			return a[:i]
		}
		return a
	}
	return "ok"
}

var c04Base = map[string]*histObs{}

func c04Baseline(cfg histCfg) *histObs {
	k := fmt.Sprintf("%v/%v/%v/%x", cfg.Suite, cfg.Ops, cfg.Prior, cfg.BMCSID)
	if b, ok := c04Base[k]; ok {
		return b
	}
	c := cfg
	c.Alphabet = ""
	b := runHistory(c, nil)
	c04Base[k] = b
	return b
}

func runC04(r *rep.R) {
	r.SetRule("a case is one execution of [command, Close] on a session in which, at a receive point of the command, the honest reply is replaced by one entry of: the forgery catalogue (flags cleared, empty/short/long/zero/wrong-key/wrong-range AuthCode, other session IDs, unsigned plaintext, 6 bad confidentiality pads signed with the real keys), every single-bit flip, or every truncation of the authentic reply; later attempts get the honest reply; k deviations; oracle: result is the authentic value or an error, and a successful call never ends on a forged datagram")
	// the last one names an integrity algorithm (MD5-128) the library does not
	// implement: it must refuse it, or else verify replies all the same
	suites := []ref.Suite{{1, 1, 1}, {2, 2, 1}, {3, 4, 1}, {2, 3, 1}}
	if thorough(r) {
		suites = append(suites, ref.Suite{1, 4, 1}, ref.Suite{3, 1, 1})
	}
	targets := []int{opGetDeviceID, opGetSDR, opChassisControl, opPowerReading}
	var idx int64
	for _, s := range suites {
		for _, t := range targets {
			cfg := histCfg{Suite: s, InSession: true, Ops: []int{t, opClose}, Horizon: 2, Alphabet: "forge", MenuOps: []int{0}}
			// measure the authentic reply's length for the flip/cut menus
			base := c04Baseline(cfg)
			if base.HandshakeErr != "" && s.Integ == 3 {
				// the library refuses a suite whose integrity algorithm it cannot
				// compute: nothing to forge against
				r.Outcome("suite-with-unimplemented-integrity-refused")
				continue
			}
			if base.HandshakeErr != "" || len(base.W.T.Log) <= base.HandshakeExchanges {
				r.Infra("C04 baseline failed: %s", base.HandshakeErr)
				continue
			}
			cfg.FlipLen = len(base.W.T.Log[base.HandshakeExchanges].Returned)
			histExploreWith(r, "C04", cfg, 1, &idx, c04Judge)
			// forgery at the Close Session receive point as well
			cfg2 := cfg
			cfg2.MenuOps = []int{1}
			cfg2.FlipLen = len(base.W.T.Log[len(base.W.T.Log)-1].Returned)
			if t == opGetDeviceID {
				histExploreWith(r, "C04", cfg2, 1, &idx, c04Judge)
			}
			// two deviations: forgery after forgery, forgery after a temporary
			// code etc. (a forgery that is not the first reply of the command meets
			// the layers as the retry path left them), catalogue only (no flips)
			cfg3 := cfg
			cfg3.FlipLen = 0
			cfg3.Horizon = 3
			histExploreWith(r, "C04", cfg3, 2, &idx, c04Judge)
			if t == opGetDeviceID {
				// the BMC numbers its sessions from 1, as the console does
				cfgS := cfg
				cfgS.BMCSID, cfgS.FlipLen = 1, 0
				histExploreWith(r, "C04", cfgS, 1, &idx, c04Judge)
				// the session under test is the second on its connection
				cfgP := cfg
				cfgP.Prior = true
				cfgP.FlipLen = 0
				histExploreWith(r, "C04", cfgP, 1, &idx, c04Judge)
				// commands (and a second Close) on the session object after Close
				for _, ops := range [][]int{{opGetDeviceID, opClose, opGetDeviceID}, {opGetDeviceID, opClose, opClose}, {opClose, opSetPriv}} {
					cfgC := cfg
					cfgC.Ops, cfgC.MenuOps, cfgC.FlipLen = ops, []int{len(ops) - 1}, 0
					histExploreWith(r, "C04", cfgC, 1, &idx, c04Judge)
				}
			}
			if thorough(r) {
				if t == opGetDeviceID || t == opPowerReading {
					// every bit flip / truncation followed by every second deviation
					cfg4 := cfg
					cfg4.Horizon = 2
					histExploreWith(r, "C04", cfg4, 2, &idx, c04Judge)
				}
			}
		}
	}
	if thorough(r) {
		r.Bound("deviations", "1; 2 for Get Device ID and Get Power Reading")
	} else {
		r.Bound("deviations", 1)
	}
	r.Assume("a confidentiality pad of length 16 with correct pad bytes is tolerated by the library by documented design (OpenSSL-style BMCs) and is not in the catalogue of invalid pads")
	r.Assume("flips of RMCP header bits that the IPMI layers do not interpret may leave the value unchanged; the property only forbids a changed value")
}
