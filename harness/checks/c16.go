package checks

import (
	"context"
	"encoding/json"
	"fmt"
	"github.com/cenkalti/backoff/v4"
	"time"

	"github.com/gebn/bmc"
	"github.com/gebn/bmc/pkg/dcmi"
	"github.com/gebn/bmc/pkg/ipmi"

	"verif/env"
	"verif/ref"
	"verif/rep"
)

// C16: paged enumerations are complete, ordered and terminate.

func init() {
	register(&Check{ID: "C16", Run: runC16, Shards: 16, MinOutcomes: 4})
	Replayers["c16cs"] = func(raw json.RawMessage) (string, bool) {
		var c c16CS
		json.Unmarshal(raw, &c)
		k, msg, _ := c16CipherSuites(c)
		return fmt.Sprintf("%s %s", k, msg), k != ""
	}
	Replayers["c16real"] = func(raw json.RawMessage) (string, bool) {
		var c map[string][]byte
		json.Unmarshal(raw, &c)
		k, msg := c16Real(c["data"])
		return fmt.Sprintf("%s %s", k, msg), k != ""
	}
	Replayers["c16dcmi"] = func(raw json.RawMessage) (string, bool) {
		var c c16DCMI
		json.Unmarshal(raw, &c)
		k, msg, _ := c16SensorInfo(c)
		return fmt.Sprintf("%+v: %s %s", c, k, msg), k != ""
	}
}

type c16CS struct {
	Recs []ref.CSRecord `json:"recs"`
	// Raw, if set, is served instead of the encoding of Recs (malformed data).
	Raw       []byte `json:"raw,omitempty"`
	Malformed bool   `json:"malformed,omitempty"`
	// BusyAt: the BusyAt-th request (1-based) is answered "node busy" once; the
	// enumeration must come out the same (0: never)
	BusyAt int `json:"busy_at,omitempty"`
}

type csEntry struct {
	ID, Auth, Integ, Conf byte
	IANA                  uint32
}

func csExpand(recs []ref.CSRecord) []csEntry {
	var out []csEntry
	for _, r := range recs {
		integs, confs := r.Integs, r.Confs
		if len(integs) == 0 {
			integs = []byte{0}
		}
		if len(confs) == 0 {
			confs = []byte{0}
		}
		for _, i := range integs {
			for _, c := range confs {
				e := csEntry{ID: r.ID, Auth: r.Auth & 0x3f, Integ: i & 0x3f, Conf: c & 0x3f}
				if r.OEM {
					e.IANA = r.IANA & 0xFFFFFF
				}
				out = append(out, e)
			}
		}
	}
	return out
}

func c16CipherSuites(c c16CS) (string, string, string) {
	cfg := defaultConfig()
	data := c.Raw
	if data == nil {
		data = csData(c.Recs...)
	}
	cfg.CipherSuiteData = data
	w := newWorld(cfg, nil, nil)
	var got []ipmi.CipherSuiteRecord
	var err error
	sends := 0
	w.T.Menu = func(t *envTransport, req []byte) []envAnswer {
		sends++
		if sends > 200 {
			w.Cancel()
		}
		if sends == c.BusyAt {
			return []envAnswer{env.Code("node-busy", 0xC0)}
		}
		return []envAnswer{envHonest()}
	}
	p := guard(func() { got, err = bmc.RetrieveSupportedCipherSuites(w.Ctx, w.Conn) })
	if p != "" {
		return "C16/ciphersuites/panic/" + siteKey(p), p, ""
	}
	if sends > 200 {
		return "C16/ciphersuites/does-not-terminate", fmt.Sprintf("more than 200 requests for %d bytes of record data", len(data)), ""
	}
	// request log: list index 0,1,2,...
	log := w.BMC.Log
	if c.BusyAt > 0 && c.BusyAt <= len(log) {
		// the repeated request is the same request again
		if c.BusyAt < len(log) && string(log[c.BusyAt-1].Raw) != string(log[c.BusyAt].Raw) {
			return "C16/ciphersuites/request-not-repeated-after-node-busy", fmt.Sprintf("request %d was answered node busy; the next request % x differs from it % x", c.BusyAt, log[c.BusyAt].Raw, log[c.BusyAt-1].Raw), ""
		}
		log = append(append([]*ref.Rx{}, log[:c.BusyAt-1]...), log[c.BusyAt:]...)
	}
	for i, rx := range log {
		if len(rx.Problems) > 0 {
			return "C16/ciphersuites/malformed-request", fmt.Sprint(rx.Problems), ""
		}
		if int(rx.Fields["index"]) != 0x80|i || rx.Fields["ptype"] != 0 || rx.Fields["channel"] != 0x0E {
			return "C16/ciphersuites/list-index-sequence", fmt.Sprintf("request %d carries channel %#x payload type %#x list index byte %#02x, want 0e/00/%#02x (%d bytes of data)", i, rx.Fields["channel"], rx.Fields["ptype"], rx.Fields["index"], 0x80|i, len(data)), ""
		}
	}
	wantReqs := len(data)/16 + 1
	if wantReqs > 64 {
		wantReqs = 64
	}
	if c.Malformed {
		if err == nil {
			return "C16/ciphersuites/malformed-data-accepted", fmt.Sprintf("malformed record data % x produced %v", data, got), ""
		}
		return "", "", "malformed-list-rejected"
	}
	if err != nil {
		return "C16/ciphersuites/valid-list-rejected", fmt.Sprintf("%d bytes of valid record data (%d records): %v", len(data), len(c.Recs), err), ""
	}
	if len(log) != wantReqs {
		return "C16/ciphersuites/request-count", fmt.Sprintf("%d requests for %d bytes of data, want %d", len(log), len(data), wantReqs), ""
	}
	want := csExpand(c.Recs)
	if len(got) != len(want) {
		return "C16/ciphersuites/entries", fmt.Sprintf("%d bytes of record data (%d records): got %d entries, want %d: %v", len(data), len(c.Recs), len(got), len(want), got), ""
	}
	for i, g := range got {
		e := want[i]
		if byte(g.CipherSuiteID) != e.ID || byte(g.AuthenticationAlgorithm) != e.Auth || byte(g.IntegrityAlgorithm) != e.Integ || byte(g.ConfidentialityAlgorithm) != e.Conf || uint32(g.Enterprise) != e.IANA {
			return "C16/ciphersuites/entry-value", fmt.Sprintf("entry %d is %+v, want %+v", i, g, e), ""
		}
	}
	return "", "", "list-complete-and-ordered"
}

type c16DCMI struct {
	Count    int  `json:"count"`
	Page     int  `json:"page"`
	Entity   int  `json:"entity"`   // which of the three entities holds the records
	Family   int  `json:"family"`   // 0 IPMI IDs, 1 DCMI IDs only, 2 neither, 3 IPMI IDs answer with an error code, 5 the BMC does not answer requests naming IPMI IDs at all
	OtherToo bool `json:"othertoo"` // the other two entities hold one record each
	// ErrEnt: family 3 only: which standard entity answers with an error code,
	// and ErrCode which one (0 = 0xC9)
	ErrEnt  int `json:"errent,omitempty"`
	ErrCode int `json:"errcode,omitempty"`
	// BusyAt: as for cipher suites
	BusyAt int `json:"busy_at,omitempty"`
}

var ipmiEnt = []byte{0x37, 0x03, 0x07}
var dcmiEnt = []byte{0x40, 0x41, 0x42}

func c16SensorInfo(c c16DCMI) (string, string, string) {
	cfg := defaultConfig()
	cfg.DCMISensors = map[byte][]uint16{}
	cfg.DCMISensorErr = map[byte]byte{}
	cfg.DCMIPageSize = c.Page
	ids := make([]uint16, c.Count)
	for i := range ids {
		ids[i] = uint16(0x0100 + i*3)
	}
	ents := ipmiEnt
	if c.Family == 1 || c.Family == 3 || c.Family == 5 {
		ents = dcmiEnt
	}
	want := [3][]uint16{}
	if c.Family != 2 {
		cfg.DCMISensors[ents[c.Entity]] = ids
		want[c.Entity] = ids
		if c.OtherToo {
			for e := 0; e < 3; e++ {
				if e != c.Entity {
					cfg.DCMISensors[ents[e]] = []uint16{uint16(0x9000 + e)}
					want[e] = []uint16{uint16(0x9000 + e)}
				}
			}
		}
	}
	if c.Family == 4 {
		// one standard entity yields record IDs, a later one answers with an error:
		// the standard family "yielded an error", so the DCMI family decides
		cfg.DCMISensors = map[byte][]uint16{ipmiEnt[0]: ids}
		cfg.DCMISensorErr[ipmiEnt[1+c.ErrEnt%2]] = byte(0xC9)
		if c.ErrCode != 0 {
			cfg.DCMISensorErr[ipmiEnt[1+c.ErrEnt%2]] = byte(c.ErrCode)
		}
		want = [3][]uint16{}
		for e := 0; e < 3; e++ {
			cfg.DCMISensors[dcmiEnt[e]] = []uint16{uint16(0xA000 + e), uint16(0xA100 + e)}
			want[e] = cfg.DCMISensors[dcmiEnt[e]]
		}
	}
	if c.Family == 3 {
		code := byte(0xC9) // "parameter out of range"
		if c.ErrCode != 0 {
			code = byte(c.ErrCode)
		}
		cfg.DCMISensorErr[ipmiEnt[c.ErrEnt%3]] = code
	}
	w := newWorld(cfg, nil, nil)
	sess, err := w.Conn.NewV2Session(w.Ctx, &bmc.V2SessionOpts{SessionOpts: bmc.SessionOpts{Username: "c16", Password: cfg.Password, MaxPrivilegeLevel: ipmi.PrivilegeLevelUser}, CipherSuites: []ipmi.CipherSuite{ipmi.CipherSuite3}})
	if err != nil {
		return "C16/dcmi/harness", err.Error(), ""
	}
	hs := len(w.BMC.Log)
	sends := 0
	w.T.Menu = func(t *envTransport, req []byte) []envAnswer {
		sends++
		if sends > 2000 {
			w.Cancel()
		}
		if sends == c.BusyAt {
			return []envAnswer{env.Code("node-busy", 0xC0)}
		}
		if c.Family == 5 {
			// a DCMI 1.0-style BMC that ignores what it does not know: requests
			// naming the IPMI entity IDs get no reply (the command then fails on
			// the transport; the DCMI IDs follow on the same session)
			if rxp := sideParseInSession(t, req); rxp != nil && rxp.Msg != nil && rxp.Msg.NetFn == 0x2c && len(rxp.Msg.Data) >= 3 && rxp.Msg.Data[2] < 0x40 {
				return []envAnswer{env.LostReply()}
			}
		}
		return []envAnswer{envHonest()}
	}
	var si *dcmi.SensorInfo
	p := guard(func() { si, err = dcmi.GetSensorInfo(w.Ctx, sess) })
	if p != "" {
		return "C16/dcmi/panic/" + siteKey(p), p, ""
	}
	if sends > 2000 {
		return "C16/dcmi/does-not-terminate", fmt.Sprintf("%+v: more than 2000 requests", c), ""
	}
	if err != nil {
		return "C16/dcmi/error", fmt.Sprintf("%+v: %v", c, err), ""
	}
	got := [3][]ipmi.RecordID{si.Inlet, si.CPU, si.Baseboard}
	for e := 0; e < 3; e++ {
		if len(got[e]) != len(want[e]) {
			return "C16/dcmi/record-ids", fmt.Sprintf("%+v: entity %d: got %d record IDs, want %d", c, e, len(got[e]), len(want[e])), ""
		}
		for i := range got[e] {
			if uint16(got[e][i]) != want[e][i] {
				return "C16/dcmi/record-ids", fmt.Sprintf("%+v: entity %d: record %d is %#04x, want %#04x", c, e, i, got[e][i], want[e][i]), ""
			}
		}
	}
	// request log: which entity families were queried, with which instance starts
	queriedDCMI, stdTotal := false, 0
	nextStart := map[byte]int{}
	dlog := w.BMC.Log[hs:]
	if c.BusyAt > 0 && c.BusyAt <= len(dlog) {
		dlog = append(append([]*ref.Rx{}, dlog[:c.BusyAt-1]...), dlog[c.BusyAt:]...)
	}
	for _, rx := range dlog {
		if len(rx.Problems) > 0 {
			return "C16/dcmi/malformed-request", fmt.Sprint(rx.Problems), ""
		}
		ent := byte(rx.Fields["entity"])
		if ent >= 0x40 {
			queriedDCMI = true
		}
		if rx.Fields["type"] != 0x01 || rx.Fields["instance"] != 0 {
			return "C16/dcmi/request-fields", fmt.Sprintf("request %+v", rx.Fields), ""
		}
		ws, ok := nextStart[ent]
		if !ok {
			ws = 1
		}
		if int(rx.Fields["start"]) != ws {
			return "C16/dcmi/instance-start-sequence", fmt.Sprintf("%+v: entity %#02x queried with instance start %d, want %d", c, ent, rx.Fields["start"], ws), ""
		}
		n := len(cfg.DCMISensors[ent])
		got := 0
		if ws <= n {
			got = min(c.Page, n-ws+1)
		}
		nextStart[ent] = ws + got
		if ent < 0x40 {
			stdTotal += got
		}
	}
	stdFailed := c.Family == 3 || c.Family == 4 || c.Family == 5
	wantDCMI := stdFailed || stdTotal == 0
	if queriedDCMI != wantDCMI {
		return "C16/dcmi/fallback", fmt.Sprintf("%+v: DCMI-specific entity IDs queried=%v, but the standard IDs yielded %d record IDs (error=%v)", c, queriedDCMI, stdTotal, stdFailed), ""
	}
	if wantDCMI {
		return "", "", "dcmi-entity-ids-used"
	}
	return "", "", "standard-entity-ids-used"
}

// c16Real: cipher-suite discovery over the library's real transport and a
// loopback socket must report what it reports over the in-memory transport
// (replies to different list indexes may be byte-identical: the chunks carry
// no index).
func c16Real(data []byte) (string, string) {
	cfg := defaultConfig()
	cfg.CipherSuiteData = data
	render := func(recs []ipmi.CipherSuiteRecord, err error) string { return fmt.Sprintf("%v %v", recs, err) }
	w := newWorld(cfg, nil, nil)
	var want string
	if p := guard(func() { want = render(bmc.RetrieveSupportedCipherSuites(w.Ctx, w.Conn)) }); p != "" {
		return "C16/real/panic", p
	}
	backoff.VerifSleep, backoff.VerifNow = nil, nil
	u, err := newUDPBMC(cfg)
	if err != nil {
		return "C16/real/harness", err.Error()
	}
	defer u.close()
	conn, err := bmc.DialV2(u.addr(), bmc.WithTimeout(300*time.Millisecond))
	if err != nil {
		return "C16/real/harness", err.Error()
	}
	defer conn.Close()
	ctx, cancel := context.WithTimeout(context.Background(), 3*time.Second)
	defer cancel()
	got := render(bmc.RetrieveSupportedCipherSuites(ctx, conn))
	if got != want {
		return "C16/real/differs-from-in-memory", fmt.Sprintf("record data % x: over a real socket discovery reports %s; over the in-memory transport %s", data, got, want)
	}
	return "", ""
}

// sideParseInSession decrypts an in-session request with the keys of the
// transport's BMC without letting the BMC see it (the menu decides before).
func sideParseInSession(t *envTransport, req []byte) *ref.Rx {
	for _, s := range t.BMC.Sessions {
		if !s.Active || s.K2 == nil {
			continue
		}
		p, err := ref.ParsePacket(req, s.IntegN)
		if err != nil || !p.Encrypted {
			continue
		}
		plain, _, err := ref.AESDecrypt(s.K2, p.Payload)
		if err != nil {
			continue
		}
		m, err := ref.ParseMsg(plain)
		if err != nil {
			continue
		}
		return &ref.Rx{Msg: m, Sess: s}
	}
	return nil
}

func cfgDefaultSuites() []byte { return defaultConfig().CipherSuiteData }

// aliases so this file reads naturally
type envTransport = envT
type envAnswer = envA

func runC16(r *rep.R) {
	r.SetRule("cipher suites: every list of <= n records over 32 record shapes ({standard, OEM} x 0..3 integrity x 0..3 confidentiality algorithms), every list of shapes whose encoding is exactly 16/32/48/64/80 bytes (built greedily from all shape pairs), 1..20 identical records, lists of 1007..1024 bytes (63/64-chunk boundary), and malformed data (bad start byte, truncated records, trailing garbage, bad algorithm tag) served through real 16-byte paging; DCMI sensor info: instance counts 0..255 x page sizes 1..8 x 3 entities x 4 family cases; oracles: exact ordered list / error for malformed, request log (list index 0,1,2.. / instance start 1,1+p,..), fallback to DCMI entity IDs iff the standard ones yield nothing or an error, termination")
	var idx int64
	var shapes []ref.CSRecord
	for oem := 0; oem < 2; oem++ {
		for ni := 0; ni < 4; ni++ {
			for nc := 0; nc < 4; nc++ {
				rec := ref.CSRecord{ID: byte(len(shapes) + 1), OEM: oem == 1, IANA: 0x00A2B7 + uint32(ni), Auth: byte(1 + (ni+nc)%3)}
				for i := 0; i < ni; i++ {
					rec.Integs = append(rec.Integs, byte(1+i))
				}
				for i := 0; i < nc; i++ {
					rec.Confs = append(rec.Confs, byte(1+i))
				}
				shapes = append(shapes, rec)
			}
		}
	}
	doCS := func(c c16CS) {
		idx++
		if !r.Mine(idx) {
			return
		}
		k, msg, out := c16CipherSuites(c)
		r.Eval(rep.H("cs", fmt.Sprint(c.Recs), c.Raw, c.BusyAt), true)
		r.Trace()
		if k != "" {
			r.Outcome("violation")
			r.Violate(k, msg, "c16cs", c, nil)
			return
		}
		r.Outcome(out)
		if r.WantSample() && len(c.Recs) > 1 {
			r.Sample(map[string]any{"records": len(c.Recs), "bytes": len(csData(c.Recs...)), "malformed": c.Malformed})
		}
	}
	n := 2
	if thorough(r) {
		n = 3
	}
	var gen func(cur []ref.CSRecord)
	gen = func(cur []ref.CSRecord) {
		doCS(c16CS{Recs: append([]ref.CSRecord{}, cur...)})
		if len(cur) == n {
			return
		}
		for _, s := range shapes {
			gen(append(cur, s))
		}
	}
	gen(nil)
	// exact multiples of 16: extend every pair of shapes with filler records to hit 16,32,48,64,80
	for _, target := range []int{16, 32, 48, 64, 80} {
		for _, a := range shapes {
			for _, b := range shapes {
				recs := []ref.CSRecord{a, b}
				l := len(csData(recs...))
				for l < target {
					need := target - l
					var pick *ref.CSRecord
					for i := range shapes {
						sl := len(shapes[i].Encode())
						if sl == need || (need-sl >= 3 && (pick == nil || sl > len(pick.Encode()))) {
							pick = &shapes[i]
							if sl == need {
								break
							}
						}
					}
					if pick == nil {
						break
					}
					recs = append(recs, *pick)
					l = len(csData(recs...))
				}
				if l == target {
					doCS(c16CS{Recs: recs})
				}
			}
		}
	}
	for k := 1; k <= 20; k++ {
		for _, s := range []ref.CSRecord{shapes[0], shapes[5], shapes[31]} {
			recs := make([]ref.CSRecord, k)
			for i := range recs {
				recs[i] = s
				recs[i].ID = byte(i)
			}
			doCS(c16CS{Recs: recs})
		}
	}
	// 63/64 chunk boundary: total encodings of 1000..1024 bytes
	for total := 1000; total <= 1024; total++ {
		var recs []ref.CSRecord
		l := 0
		for l < total {
			need := total - l
			rec := ref.CSRecord{ID: byte(len(recs)), Auth: 1, Integs: []byte{1, 2, 4}, Confs: []byte{1, 2, 3}} // 9 bytes
			switch {
			case need == 9 || need >= 12:
			case need >= 3 && need <= 8:
				rec.Integs, rec.Confs = rec.Integs[:min(3, need-3)], rec.Confs[:max(0, need-6)]
			default: // 10, 11: use an 7/8-byte record next so the remainder stays >= 3
				rec.Confs = rec.Confs[:need-9]
			}
			recs = append(recs, rec)
			l = len(csData(recs...))
		}
		if l == total {
			doCS(c16CS{Recs: recs})
		}
	}
	// one request of the enumeration answered "node busy" once: the list is the same
	for _, recs := range [][]ref.CSRecord{{shapes[5]}, {shapes[5], shapes[21], shapes[10]}, {shapes[15], shapes[31], shapes[15], shapes[31], shapes[15], shapes[31]}, {shapes[3], shapes[3], shapes[3], shapes[3]}} {
		for at := 1; at <= len(csData(recs...))/16+1; at++ {
			doCS(c16CS{Recs: recs, BusyAt: at})
		}
	}
	// zero padding after the records (a chunk filled up with 00): not record data
	doCS(c16CS{Raw: append(csData(shapes[5], shapes[21]), 0, 0, 0), Malformed: true})
	doCS(c16CS{Raw: append(csData(shapes[5]), make([]byte, 16-len(csData(shapes[5])))...), Malformed: true})
	// malformed data
	good := csData(shapes[5], shapes[21], shapes[10])
	doCS(c16CS{Raw: append([]byte{0x00}, good...), Malformed: true})
	doCS(c16CS{Raw: append(append([]byte{}, good...), 0x55), Malformed: true})
	doCS(c16CS{Raw: append(append([]byte{}, good...), 0xC0), Malformed: true})
	doCS(c16CS{Raw: append(append([]byte{}, good...), 0xC0, 0x01), Malformed: true})
	doCS(c16CS{Raw: append(append([]byte{}, good...), 0xC1, 0x01, 0x02, 0x03), Malformed: true})
	doCS(c16CS{Raw: append(append([]byte{}, good...), 0xC1, 0x01, 0x02, 0x03, 0x04), Malformed: true})
	doCS(c16CS{Raw: []byte{0xC0, 0x01, 0x41}, Malformed: true}) // integrity tag where the authentication algorithm belongs
	doCS(c16CS{Raw: []byte{0xC0, 0x01, 0x81}, Malformed: true})
	doCS(c16CS{Raw: []byte{0xC0, 0x01, 0x01, 0x41, 0x81, 0x41}, Malformed: true}) // integrity algorithm after confidentiality: not a record start
	doCS(c16CS{Raw: []byte{0xC2, 0x01, 0x01}, Malformed: true})
	sixteen := csData(ref.CSRecord{ID: 1, Auth: 1, Integs: []byte{1, 2}}, ref.CSRecord{ID: 2, Auth: 2, Confs: []byte{1, 2}}, ref.CSRecord{ID: 3, Auth: 3, Integs: []byte{4}, Confs: []byte{1, 2}})
	for chunks := 1; chunks <= 3; chunks++ {
		var raw []byte
		for i := 0; i < chunks; i++ {
			raw = append(raw, sixteen...)
		}
		doCS(c16CS{Raw: append(raw, 0xC1, 0x09), Malformed: true})        // OEM record cut right after a chunk boundary
		doCS(c16CS{Raw: append(raw, 0xC0), Malformed: true})              // lone start byte in a chunk of its own
		doCS(c16CS{Raw: append(raw[:len(raw)-1], 0x00), Malformed: true}) // last algorithm byte replaced by an authentication-tagged byte: not a record start
	}
	// DCMI sensor info
	doD := func(c c16DCMI) {
		idx++
		if !r.Mine(idx) {
			return
		}
		k, msg, out := c16SensorInfo(c)
		r.Eval(rep.H("dcmi", fmt.Sprint(c)), true)
		r.Trace()
		if k != "" {
			r.Outcome("violation")
			r.Violate(k, msg, "c16dcmi", c, nil)
			return
		}
		r.Outcome(out)
		if r.WantSample() && c.Count > 20 {
			r.Sample(c)
		}
	}
	for count := 0; count < 256; count++ {
		for page := 1; page <= 8; page++ {
			for ent := 0; ent < 3; ent++ {
				for fam := 0; fam < 5; fam++ {
					if fam == 4 && (count == 0 || ent != 0) {
						continue
					}
					if !thorough(r) && count > 20 && count < 240 && count%16 > 1 && page != 8 && page != 1 {
						continue
					}
					doD(c16DCMI{Count: count, Page: page, Entity: ent, Family: fam, OtherToo: (count+page+ent)%2 == 0, ErrEnt: (count + page) % 3, ErrCode: []int{0xC9, 0xC1, 0xCB, 0xD4, 0xFF}[(count+ent)%5]})
				}
			}
		}
	}
	for _, cnt := range []int{1, 2, 5, 9} {
		for _, page := range []int{1, 2, 8} {
			for fam := 0; fam < 2; fam++ {
				for at := 1; at <= 12; at++ {
					doD(c16DCMI{Count: cnt, Page: page, Entity: at % 3, Family: fam, OtherToo: true, BusyAt: at})
				}
			}
		}
	}
	// over real sockets: lists whose neighbouring 16-byte chunks are byte-identical
	four := ref.CSRecord{ID: 7, Auth: 1, Integs: []byte{1}}
	chunk := csData(four, four, four, four)
	for vi, data := range [][]byte{
		cfgDefaultSuites(),
		cat(chunk, chunk, csData(ref.CSRecord{ID: 3, Auth: 1})),
		cat(chunk, chunk),
		cat(chunk, chunk, chunk, csData(csRec3)),
		cat(csData(csRec17), chunk[:11], chunk, chunk),
	} {
		idx++
		if !r.Mine(idx) {
			continue
		}
		k, msg := c16Real(data)
		r.Eval(rep.H("real", vi), true)
		r.Trace()
		if k != "" {
			if k2, _ := c16Real(data); k2 != k {
				r.Count("real_socket_mismatch_not_reproduced", 1)
				continue
			}
			r.Outcome("violation")
			r.Violate(k, msg, "c16real", map[string][]byte{"data": data}, nil)
		} else {
			r.Outcome("list-complete-and-ordered")
		}
	}
	for _, cnt := range []int{0, 1, 3, 9} {
		for _, page := range []int{1, 4, 8} {
			for ent := 0; ent < 3; ent++ {
				doD(c16DCMI{Count: cnt, Page: page, Entity: ent, Family: 5, OtherToo: true})
			}
		}
	}
	r.Bound("cipher_suite_records_exhaustive", n)
	r.Assume("a record cut inside its algorithm bytes is indistinguishable from a record with fewer algorithms and is not counted as malformed")
}
