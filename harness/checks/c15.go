package checks

import (
	"encoding/json"
	"errors"
	"fmt"
	"math"
	"math/big"
	"time"

	"github.com/gebn/bmc"
	"github.com/gebn/bmc/pkg/ipmi"
	"github.com/google/gopacket"

	"verif/ref"
	"verif/rep"
)

// C15: sensor readings are converted with the specification's formula.

func init() {
	register(&Check{ID: "C15", Run: runC15, Shards: 16, MinOutcomes: 5})
	Replayers["c15"] = func(raw json.RawMessage) (string, bool) {
		c := c15Case{Prev: -1}
		json.Unmarshal(raw, &c)
		w := newC15World()
		k, msg, _ := c15One(w, c)
		return fmt.Sprintf("%+v: %s %s", c, k, msg), k != ""
	}
}

type c15Case struct {
	Raw   int `json:"raw"`
	Fmt   int `json:"fmt"` // analog data format 0..3
	Lin   int `json:"lin"` // linearisation 0..127
	M     int `json:"m"`
	B     int `json:"b"`
	K1    int `json:"k1"` // B exponent
	K2    int `json:"k2"` // result exponent
	Flags int `json:"flags"`
	// Prev: if >= 0, the same reader is first polled once with this flags byte
	// (and raw byte PrevRaw); the second poll is the one judged.
	Prev    int `json:"prev"`
	PrevRaw int `json:"prev_raw"`
	hasPrev bool
	// Overwrite: after the reader was built the caller reuses the record value
	// (1: decodes another record into it, 2: zeroes it); the reader must keep
	// describing the record it was built from.
	Overwrite int `json:"overwrite,omitempty"`
	// EvType, if non-zero, replaces the record's event/reading type code
	// (threshold = 01h): it has no bearing on the analog format or the formula
	EvType int `json:"evtype,omitempty"`
	// Short: if > 0, the judged reply carries a normal completion code and only
	// Short-1 data bytes (no reading at all / no flags byte): that is not a
	// reading, whatever an earlier poll returned.
	Short int `json:"short,omitempty"`
}

type c15World struct {
	w    *World
	sess *bmc.V2Session
	n    int
}

func newC15World() *c15World {
	cfg := defaultConfig()
	w := newWorld(cfg, nil, nil)
	sess, err := w.Conn.NewV2Session(w.Ctx, &bmc.V2SessionOpts{SessionOpts: bmc.SessionOpts{Username: "c15", Password: cfg.Password, MaxPrivilegeLevel: ipmi.PrivilegeLevelUser}, CipherSuites: []ipmi.CipherSuite{ipmi.CipherSuite3}})
	if err != nil {
		panic("C15 harness: handshake failed: " + err.Error())
	}
	w.T.MaxAttempts = 200
	return &c15World{w: w, sess: sess}
}

// c15Record encodes a Full Sensor Record body (43.1) for the case.
func c15Record(c c15Case) []byte {
	d := make([]byte, 43)
	d[0], d[1], d[2] = 0x20, 0x01, 0x37 // owner BMC, LUN 1, sensor number 0x37
	d[3], d[4] = 0x03, 0x01
	d[7], d[8] = 0x01, 0x01
	d[15] = byte(c.Fmt) << 6
	d[16] = 0x01
	if c.EvType != 0 {
		d[8] = byte(c.EvType) // event/reading type code (43.1 byte 14)
	}
	d[18] = byte(c.Lin) & 0x7f
	m, b := uint16(c.M)&0x3ff, uint16(c.B)&0x3ff
	d[19], d[20] = byte(m), byte(m>>8)<<6
	d[21], d[22] = byte(b), byte(b>>8)<<6
	d[24] = byte(c.K2&0xf)<<4 | byte(c.K1&0xf)
	d[42] = 0xC1
	return append(d, 'T', 'x')
}

func ratPow10(k int) *big.Rat {
	p := new(big.Int).Exp(big.NewInt(10), big.NewInt(int64(abs(k))), nil)
	if k >= 0 {
		return new(big.Rat).SetInt(p)
	}
	return new(big.Rat).SetFrac(big.NewInt(1), p)
}

func abs(x int) int {
	if x < 0 {
		return -x
	}
	return x
}

func refLin(l int, x float64) float64 {
	switch l {
	case 1:
		return math.Log(x)
	case 2:
		return math.Log10(x)
	case 3:
		return math.Log2(x)
	case 4:
		return math.Exp(x)
	case 5:
		return math.Pow(10, x)
	case 6:
		return math.Exp2(x)
	case 7:
		return 1 / x
	case 8:
		return x * x
	case 9:
		return x * x * x
	case 10:
		return math.Sqrt(x)
	case 11:
		return math.Cbrt(x)
	}
	return x
}

func widen(lo, hi float64) (float64, float64) {
	if lo > hi {
		lo, hi = hi, lo
	}
	const rel = 16 * 2.220446049250313e-16
	lo -= math.Abs(lo)*rel + 5e-324
	hi += math.Abs(hi)*rel + 5e-324
	return lo, hi
}

// c15One returns (key, message, outcome).
func c15One(cw *c15World, c c15Case) (string, string, string) {
	var fsr ipmi.FullSensorRecord
	if err := fsr.DecodeFromBytes(c15Record(c), gopacket.NilDecodeFeedback); err != nil {
		return "C15/record-rejected", err.Error(), ""
	}
	reader, err := bmc.NewSensorReader(&fsr)
	mustRefuse := c.Lin >= 12 || c.Fmt == 3
	if mustRefuse {
		if err == nil {
			return "C15/reader-built-for-unsupported-record", fmt.Sprintf("linearisation %d analog format %d: NewSensorReader returned a reader", c.Lin, c.Fmt), ""
		}
		return "", "", "reader-refused"
	}
	if err != nil {
		return "C15/reader-refused-for-supported-record", fmt.Sprintf("linearisation %d analog format %d: %v", c.Lin, c.Fmt, err), ""
	}
	switch c.Overwrite {
	case 1:
		other := c15Case{Fmt: (c.Fmt + 1) % 3, Lin: (c.Lin + 1) % 12, M: c.M*7 + 3, B: c.B - 11, K1: c.K1 ^ 5, K2: c.K2 ^ 3}
		raw := c15Record(other)
		raw[1], raw[2] = 0x02, 0x55 // another LUN and sensor number
		fsr.DecodeFromBytes(raw, gopacket.NilDecodeFeedback)
	case 2:
		fsr = ipmi.FullSensorRecord{}
	}
	if c.Prev >= 0 {
		cw.w.BMC.Cfg.Sensors = map[byte][]byte{0x37: {byte(c.PrevRaw), byte(c.Prev), 0xFF, 0xFF}}
		cw.w.T.BeginOp()
		guard(func() { reader.Read(cw.w.Ctx, cw.sess) })
	}
	cw.w.BMC.Cfg.Sensors = map[byte][]byte{0x37: {byte(c.Raw), byte(c.Flags), 0x00}}
	if c.Short > 0 {
		cw.w.BMC.Cfg.Sensors = map[byte][]byte{0x37: []byte{byte(c.Raw), byte(c.Flags)}[:c.Short-1]}
	}
	before := len(cw.w.T.Log)
	cw.w.T.BeginOp()
	var got float64
	p := guard(func() { got, err = reader.Read(cw.w.Ctx, cw.sess) })
	cw.n++
	if cw.n%2000 == 0 {
		cw.w.T.Log, cw.w.BMC.Log = nil, nil
		before = 0
	}
	if p != "" {
		return "C15/panic", p, ""
	}
	if n := len(cw.w.T.Log) - before; n == 1 {
		if rx := cw.w.T.Log[len(cw.w.T.Log)-1].Rx; rx == nil || rx.Msg == nil || rx.Msg.LUN1 != 1 || len(rx.Msg.Data) != 1 || rx.Msg.Data[0] != 0x37 || rx.Msg.NetFn != 0x04 || rx.Msg.Cmd != 0x2d {
			return "C15/wrong-sensor-queried", fmt.Sprintf("the reading was requested with %+v, the record says sensor 0x37 on LUN 1", rx.Msg), ""
		}
	}
	if c.Short > 0 {
		if err == nil {
			return "C15/value-from-a-reply-without-reading", fmt.Sprintf("the BMC answered with a normal code and %d data bytes (previous poll: raw %#02x flags %#02x): Read returned %v with a nil error", c.Short-1, c.PrevRaw, c.Prev, got), ""
		}
		if errors.Is(err, bmc.ErrSensorReadingUnavailable) || errors.Is(err, bmc.ErrSensorScanningDisabled) {
			if c.Short-1 < 2 {
				return "C15/flags", fmt.Sprintf("the BMC sent %d data bytes, hence no flags byte (previous poll: flags %#02x), yet Read reported %v", c.Short-1, c.Prev, err), ""
			}
		}
		return "", "", "error-for-reply-without-reading"
	}
	unavailable, scanningOff := c.Flags&0x20 != 0, c.Flags&0x40 == 0
	if unavailable || scanningOff {
		okU, okS := errors.Is(err, bmc.ErrSensorReadingUnavailable), errors.Is(err, bmc.ErrSensorScanningDisabled)
		if (unavailable && okU) || (scanningOff && okS) {
			return "", "", "flag-error"
		}
		return "C15/flags", fmt.Sprintf("flags byte %#02x (unavailable=%v scanning-disabled=%v): got (%v, %v)", c.Flags, unavailable, scanningOff, got, err), ""
	}
	if err != nil {
		return "C15/unexpected-error", fmt.Sprintf("flags %#02x: %v", c.Flags, err), ""
	}
	// exact evaluation
	var x int
	switch c.Fmt {
	case 0:
		x = c.Raw
	case 1:
		x = c.Raw
		if c.Raw&0x80 != 0 {
			x = -int(^byte(c.Raw))
		}
	case 2:
		x = int(int8(byte(c.Raw)))
	}
	mx := new(big.Rat).SetInt64(int64(c.M) * int64(x))
	bk := new(big.Rat).Mul(new(big.Rat).SetInt64(int64(c.B)), ratPow10(c.K1))
	y := new(big.Rat).Mul(new(big.Rat).Add(mx, bk), ratPow10(c.K2))
	yf, _ := y.Float64()
	mag := new(big.Rat).Mul(new(big.Rat).Add(new(big.Rat).Abs(mx), new(big.Rat).Abs(bk)), ratPow10(c.K2))
	magf, _ := mag.Float64()
	tol := 8 * 1.1102230246251565e-16 * magf
	if c.Lin == 0 {
		if math.Abs(got-yf) > tol+5e-324 {
			return "C15/linear-formula", fmt.Sprintf("raw %#02x (x=%d) M=%d B=%d K1=%d K2=%d: got %v, exact (M*x + B*10^K1)*10^K2 = %v (tolerance %g)", c.Raw, x, c.M, c.B, c.K1, c.K2, got, yf, tol), ""
		}
		return "", "", "linear-within-rounding"
	}
	lo, hi := yf-tol, yf+tol
	// singular / domain-boundary points inside the uncertainty interval: not judged
	switch c.Lin {
	case 1, 2, 3:
		if lo <= 0 && hi >= 0 {
			return "", "", "linearised-at-singularity-not-judged"
		}
	case 7:
		if lo <= 0 && hi >= 0 {
			return "", "", "linearised-at-singularity-not-judged"
		}
	case 10:
		if lo < 0 && hi >= 0 {
			return "", "", "linearised-at-singularity-not-judged"
		}
	}
	a, b := refLin(c.Lin, lo), refLin(c.Lin, hi)
	mid := refLin(c.Lin, yf)
	if math.IsNaN(mid) {
		if !math.IsNaN(got) {
			return "C15/linearised/nan-expected", fmt.Sprintf("lin %d of %v is outside the function's domain, got %v", c.Lin, yf, got), ""
		}
		return "", "", "linearised-outside-domain-nan"
	}
	if math.IsNaN(got) {
		return "C15/linearised/nan", fmt.Sprintf("linearisation %d of y=%v (raw %#02x x=%d M=%d B=%d K1=%d K2=%d): got NaN, exact value is %v", c.Lin, yf, c.Raw, x, c.M, c.B, c.K1, c.K2, mid), ""
	}
	l2, h2 := widen(math.Min(math.Min(a, b), mid), math.Max(math.Max(a, b), mid))
	if math.IsInf(mid, 0) || math.IsInf(a, 0) || math.IsInf(b, 0) {
		if math.IsInf(got, 0) || (got >= l2 && got <= h2) {
			return "", "", "linearised-overflow"
		}
	}
	if got < l2 || got > h2 {
		return "C15/linearised/value", fmt.Sprintf("linearisation %d of y=%v (raw %#02x x=%d M=%d B=%d K1=%d K2=%d): got %v, expected within [%v, %v]", c.Lin, yf, c.Raw, x, c.M, c.B, c.K1, c.K2, got, l2, h2), ""
	}
	return "", "", "linearised-within-rounding"
}

func signed10(v int) int {
	if v >= 512 {
		return v - 1024
	}
	return v
}

func runC15(r *rep.R) {
	r.SetRule("a case is (raw byte, analog format, linearisation, M, B, K1, K2, flags byte): the reference encodes a Full Sensor Record, the library decodes it, builds a reader and reads through a real session from the reference BMC serving the raw and flags bytes; raw 0..255 x 3 formats x 12 functions are complete for every factor set; M and B run over all 1024 values (thorough; boundary sets in quick), K1 x K2 over all 256 pairs, flags over all 256 values; oracle: exact rational evaluation (math/big) with a forward error bound, interval evaluation through L. distinct = distinct cases")
	cw := newC15World()
	var idx int64
	slowFailures := 0
	do := func(c c15Case) {
		if !c.hasPrev {
			c.Prev = -1
		}
		idx++
		if !r.Mine(idx) {
			return
		}
		if slowFailures > 40 {
			return // see below
		}
		t0 := time.Now()
		k, msg, out := c15One(cw, c)
		if k != "" && time.Since(t0) > 20*time.Millisecond {
			// a failing read that also costs a retry storm: a library in that state
			// fails the same way on the remaining millions of cases, which adds
			// nothing but hours
			if slowFailures++; slowFailures > 40 {
				r.Cap("shard stopped after 40 violating cases that each ran into the transmission cap")
			}
		}
		r.Eval(rep.H(fmt.Sprint(c)), out != "linearised-at-singularity-not-judged")
		if k != "" {
			r.Outcome("violation")
			if k == "C15/linearised/nan" || k == "C15/linearised/value" || k == "C15/linearised/nan-expected" {
				k += fmt.Sprintf("/lin=%d", c.Lin)
			}
			r.Violate(k, msg, "c15", c, nil)
			return
		}
		r.Outcome(out)
		if r.WantSample() && idx%100003 == 0 {
			r.Sample(c)
		}
	}
	bnd10 := []int{-512, -511, -2, -1, 0, 1, 2, 510, 511}
	bnd4 := []int{-8, -7, -1, 0, 1, 7}
	raws := func(f func(raw int)) {
		for raw := 0; raw < 256; raw++ {
			f(raw)
		}
	}
	full := thorough(r)
	// (a) every raw x format x linearisation for boundary factor sets
	for lin := 0; lin < 12; lin++ {
		for f := 0; f < 3; f++ {
			for _, m := range bnd10 {
				for _, b := range []int{-512, -1, 0, 1, 511} {
					for _, k1 := range []int{-8, -1, 0, 7} {
						for _, k2 := range []int{-8, -1, 0, 7} {
							if !full && lin > 0 && !((k1 == 0 || k1 == -1) && (k2 == 0 || k2 == -1)) {
								continue
							}
							raws(func(raw int) { do(c15Case{Raw: raw, Fmt: f, Lin: lin, M: m, B: b, K1: k1, K2: k2, Flags: 0xC0}) })
						}
					}
				}
			}
		}
	}
	// (b) M over all 1024, B over all 1024 (thorough: x all raws; quick: boundary raws)
	rawSet := []int{0, 1, 0x7F, 0x80, 0x81, 0xFE, 0xFF}
	for v := 0; v < 1024; v++ {
		sv := signed10(v)
		for f := 0; f < 3; f++ {
			for _, lin := range []int{0, 8, 11} {
				each := func(raw int) {
					do(c15Case{Raw: raw, Fmt: f, Lin: lin, M: sv, B: 3, K1: -1, K2: -2, Flags: 0xC0})
					do(c15Case{Raw: raw, Fmt: f, Lin: lin, M: 3, B: sv, K1: 2, K2: -3, Flags: 0xC0})
				}
				if full {
					raws(each)
				} else {
					for _, raw := range rawSet {
						each(raw)
					}
				}
			}
		}
	}
	// (c) K1 x K2 all 256 pairs, B over all 1024 x K1 all 16
	for k1 := -8; k1 < 8; k1++ {
		for k2 := -8; k2 < 8; k2++ {
			for f := 0; f < 3; f++ {
				for _, raw := range rawSet {
					for _, lin := range []int{0, 1, 4, 7, 10} {
						do(c15Case{Raw: raw, Fmt: f, Lin: lin, M: 511, B: -512, K1: k1, K2: k2, Flags: 0xC0})
						do(c15Case{Raw: raw, Fmt: f, Lin: lin, M: -1, B: 127, K1: k1, K2: k2, Flags: 0xC0})
					}
				}
			}
		}
		for v := 0; v < 1024; v++ {
			do(c15Case{Raw: 0x80, Fmt: 2, Lin: 0, M: 1, B: signed10(v), K1: k1, K2: 0, Flags: 0xC0})
		}
	}
	// (d) pairs of boundary sets
	for _, m := range bnd10 {
		for _, b := range bnd10 {
			for _, k1 := range bnd4 {
				for _, k2 := range bnd4 {
					for _, raw := range rawSet {
						for f := 0; f < 3; f++ {
							do(c15Case{Raw: raw, Fmt: f, Lin: 0, M: m, B: b, K1: k1, K2: k2, Flags: 0xC0})
						}
					}
				}
			}
		}
	}
	// (e) flags byte, refusals
	for fl := 0; fl < 256; fl++ {
		for _, lin := range []int{0, 5} {
			for _, raw := range []int{0, 0x80, 0xFF} {
				do(c15Case{Raw: raw, Fmt: 0, Lin: lin, M: 2, B: 1, K1: 0, K2: 0, Flags: fl})
			}
		}
	}
	for lin := 0; lin < 128; lin++ {
		for f := 0; f < 4; f++ {
			do(c15Case{Raw: 1, Fmt: f, Lin: lin, M: 1, B: 0, K1: 0, K2: 0, Flags: 0xC0})
		}
	}
	// (f) the same reader polled twice: the second reading must not depend on the first
	for _, prev := range []int{0x00, 0x20, 0x40, 0x60, 0x80, 0xA0, 0xC0, 0xE0, 0xFF} {
		for _, fl := range []int{0x00, 0x20, 0x40, 0x60, 0x80, 0xA0, 0xC0, 0xE0} {
			for _, lin := range []int{0, 8} {
				for _, raw := range []int{0, 0x7F, 0x80, 0xFF} {
					do(c15Case{Raw: raw, Fmt: 2, Lin: lin, M: 3, B: -5, K1: 1, K2: -1, Flags: fl, Prev: prev, PrevRaw: raw ^ 0xFF, hasPrev: true})
				}
			}
		}
	}
	// (g') records of every event/reading type code
	for ev := 1; ev < 256; ev++ {
		for f := 0; f < 3; f++ {
			do(c15Case{Raw: 0x5A, Fmt: f, Lin: ev % 12, M: 7, B: -3, K1: 1, K2: -2, Flags: 0xC0, EvType: ev})
		}
	}
	// (g) the record value is reused by the caller after the reader was built
	for _, ow := range []int{1, 2} {
		for f := 0; f < 3; f++ {
			for lin := 0; lin < 12; lin++ {
				for _, raw := range []int{0, 1, 0x7F, 0x80, 0xFE, 0xFF} {
					for _, mb := range [][4]int{{1, 0, 0, 0}, {100, -200, 2, -3}, {-512, 511, 7, 7}, {511, -512, -8, -8}, {3, 7, -1, 1}} {
						do(c15Case{Raw: raw, Fmt: f, Lin: lin, M: mb[0], B: mb[1], K1: mb[2], K2: mb[3], Flags: 0xC0, Overwrite: ow})
					}
				}
			}
		}
	}
	// (h) a reply with a normal code but no reading in it, on a fresh reader and
	// after every kind of earlier poll
	for short := 1; short <= 3; short++ {
		for _, prev := range []int{-1, 0x00, 0x20, 0x40, 0x60, 0xC0, 0xE0} {
			for _, lin := range []int{0, 8} {
				for _, raw := range []int{0, 0x2A, 0xFF} {
					for _, fl := range []int{0x00, 0x20, 0xC0} {
						do(c15Case{Raw: raw, Fmt: 0, Lin: lin, M: 2, B: 1, K1: 0, K2: 0, Flags: fl, Prev: prev, PrevRaw: 0x55, hasPrev: true, Short: short})
					}
				}
			}
		}
	}
	r.Assume("tolerance: |got - y| <= 8*2^-53*(|M*x| + |B|*10^K1)*10^K2 (forward error bound of the expression as written); linearised results must lie in the hull of L over [y-tol, y+tol] widened by 16 ulp; intervals containing a singularity or domain boundary of L are not judged")
	r.Assume("L is evaluated with Go's math package (Cbrt for the cube root)")
	_ = ref.Suite{}
}
