package checks

import (
	"bytes"
	"encoding/json"
	"fmt"
	"strings"
	"time"

	"github.com/gebn/bmc"
	"github.com/gebn/bmc/pkg/dcmi"
	"github.com/gebn/bmc/pkg/iana"
	"github.com/gebn/bmc/pkg/ipmi"
	"github.com/google/gopacket"

	"verif/env"
	"verif/ref"
	"verif/rep"
)

// C06: requests are encoded exactly as the IPMI and DCMI specifications define.

func init() {
	register(&Check{ID: "C06", Run: runC06, Shards: 16, MinOutcomes: 3})
	Replayers["c06"] = func(raw json.RawMessage) (string, bool) {
		var c c06Case
		json.Unmarshal(raw, &c)
		ws := newC06Worlds()
		k, msg := c06One(ws, c)
		return fmt.Sprintf("%+v: %s %s", c, k, msg), k != ""
	}
}

type c06Case struct {
	Cmd string  `json:"cmd"`
	V   []int64 `json:"v"`
}

func le32b(v uint32) []byte { return []byte{byte(v), byte(v >> 8), byte(v >> 16), byte(v >> 24)} }
func le16b(v uint16) []byte { return []byte{byte(v), byte(v >> 8)} }

// c06Build returns the library command for a case together with the
// reference encoding of what must reach the BMC. wantErr: the request must be
// refused instead of sent.
func c06Build(c c06Case) (cmd ipmi.Command, netfn, cmdno, lun byte, data []byte, wantErr bool) {
	v := c.V
	switch c.Cmd {
	case "GetChannelAuthenticationCapabilities":
		cmd = &ipmi.GetChannelAuthenticationCapabilitiesCmd{Req: ipmi.GetChannelAuthenticationCapabilitiesReq{ExtendedData: v[0] != 0, Channel: ipmi.Channel(v[1]), MaxPrivilegeLevel: ipmi.PrivilegeLevel(v[2])}}
		return cmd, 0x06, 0x38, 0, []byte{byte(v[0])<<7 | byte(v[1]), byte(v[2])}, false
	case "GetChannelCipherSuites":
		cmd = &ipmi.GetChannelCipherSuitesCmd{Req: ipmi.GetChannelCipherSuitesReq{Channel: ipmi.Channel(v[0]), PayloadType: ipmi.PayloadType(v[1]), ListIndex: uint8(v[2])}}
		return cmd, 0x06, 0x54, 0, []byte{byte(v[0]), byte(v[1]), 0x80 | byte(v[2])}, false
	case "GetSessionInfo":
		req := ipmi.GetSessionInfoReq{Index: ipmi.SessionIndex(v[0]), Handle: ipmi.SessionHandle(v[1]), ID: uint32(v[2])}
		data = []byte{byte(v[0])}
		switch v[0] {
		case 0xFE:
			data = append(data, byte(v[1]))
		case 0xFF:
			data = append(data, le32b(uint32(v[2]))...)
		}
		return &ipmi.GetSessionInfoCmd{Req: req}, 0x06, 0x3d, 0, data, false
	case "SetSessionPrivilegeLevel":
		cmd = &ipmi.SetSessionPrivilegeLevelCmd{Req: ipmi.SetSessionPrivilegeLevelReq{PrivilegeLevel: ipmi.PrivilegeLevel(v[0])}}
		return cmd, 0x06, 0x3b, 0, []byte{byte(v[0])}, v[0] == 1
	case "CloseSession":
		cmd = &ipmi.CloseSessionCmd{Req: ipmi.CloseSessionReq{ID: uint32(v[0]), Handle: ipmi.SessionHandle(v[1])}}
		data = le32b(uint32(v[0]))
		if v[0] == 0 {
			data = append(data, byte(v[1]))
		}
		return cmd, 0x06, 0x3c, 0, data, false
	case "ChassisControl":
		cmd = &ipmi.ChassisControlCmd{Req: ipmi.ChassisControlReq{ChassisControl: ipmi.ChassisControl(v[0])}}
		return cmd, 0x00, 0x02, 0, []byte{byte(v[0])}, false
	case "GetSDR":
		cmd = &ipmi.GetSDRCmd{Req: ipmi.GetSDRReq{ReservationID: ipmi.ReservationID(v[0]), RecordID: ipmi.RecordID(v[1]), Offset: uint8(v[2]), Length: uint8(v[3])}}
		return cmd, 0x0a, 0x23, 0, cat(le16b(uint16(v[0])), le16b(uint16(v[1])), []byte{byte(v[2]), byte(v[3])}), false
	case "GetSensorReading":
		cmd = &ipmi.GetSensorReadingCmd{Req: ipmi.GetSensorReadingReq{Number: uint8(v[0])}, OwnerLUN: ipmi.LUN(v[1])}
		return cmd, 0x04, 0x2d, byte(v[1]), []byte{byte(v[0])}, false
	case "GetDCMICapabilitiesInfo":
		switch v[0] {
		case 1:
			cmd = dcmi.NewGetDCMICapabilitiesInfoSupportedCapabilitiesCmd()
		case 2:
			cmd = dcmi.NewGetDCMICapabilitiesInfoMandatoryPlatformAttrsCmd()
		case 3:
			cmd = dcmi.NewGetDCMICapabilitiesInfoOptionalPlatformAttrsCmd()
		case 4:
			cmd = dcmi.NewGetDCMICapabilitiesInfoManageabilityAccessAttrsCmd()
		default:
			cmd = dcmi.NewGetDCMICapabilitiesInfoEnhancedSystemPowerStatisticsAttrsCmd()
		}
		return cmd, 0x2c, 0x01, 0, []byte{0xDC, byte(v[0])}, false
	case "GetPowerReading":
		mode := dcmi.SystemPowerStatisticsMode(v[0])
		period := time.Duration(v[1]) * time.Second
		cmd = &dcmi.GetPowerReadingCmd{Req: dcmi.GetPowerReadingReq{Mode: mode, Period: period}}
		pb := byte(0)
		if v[0] == 2 {
			s := v[1]
			switch {
			case s < 60:
				pb = byte(s)
			case s < 3600:
				pb = 0x40 | byte(s/60)
			case s < 86400:
				pb = 0x80 | byte(s/3600)
			default:
				d := s / 86400
				if d > 63 {
					d = 63
				}
				pb = 0xC0 | byte(d)
			}
		}
		return cmd, 0x2c, 0x02, 0, []byte{0xDC, byte(v[0]), pb, 0}, false
	case "GetDCMISensorInfo":
		cmd = &dcmi.GetDCMISensorInfoCmd{Req: dcmi.GetDCMISensorInfoReq{Type: ipmi.SensorType(v[0]), Entity: ipmi.EntityID(v[1]), Instance: ipmi.EntityInstance(v[2]), InstanceStart: uint8(v[3])}}
		start := byte(v[3])
		if v[2] != 0 {
			start = 0
		}
		return cmd, 0x2c, 0x07, 0, []byte{0xDC, byte(v[0]), byte(v[1]), byte(v[2]), start}, false
	case "RawGroup": // caller-defined group-extension command: v = body code, command, body length
		body := pattern(int(v[2]), 0x33, 1)
		cmd = &rawCmd{op: ipmi.Operation{Function: ipmi.NetworkFunctionGroupReq, Body: ipmi.BodyCode(v[0]), Command: ipmi.CommandNumber(v[1])}, body: body}
		return cmd, 0x2c, byte(v[1]), 0, append([]byte{byte(v[0])}, body...), false
	case "RawOEM": // caller-defined OEM command: v = enterprise number (24 bit), command, body length
		body := pattern(int(v[2]), 0x44, 1)
		cmd = &rawCmd{op: ipmi.Operation{Function: ipmi.NetworkFunctionOEMReq, Enterprise: iana.Enterprise(v[0]), Command: ipmi.CommandNumber(v[1])}, body: body}
		return cmd, 0x2e, byte(v[1]), 0, append([]byte{byte(v[0]), byte(v[0] >> 8), byte(v[0] >> 16)}, body...), false
	case "RawNetFn": // any even NetFn 0..0x3e that has no addressing extension
		body := pattern(int(v[2]), 0x55, 1)
		cmd = &rawCmd{op: ipmi.Operation{Function: ipmi.NetworkFunction(v[0]), Command: ipmi.CommandNumber(v[1])}, body: body}
		return cmd, byte(v[0]), byte(v[1]), 0, body, false
	case "GetDeviceID":
		return &ipmi.GetDeviceIDCmd{}, 0x06, 0x01, 0, nil, false
	case "GetChassisStatus":
		return &ipmi.GetChassisStatusCmd{}, 0x00, 0x01, 0, nil, false
	case "GetSystemGUID":
		return &ipmi.GetSystemGUIDCmd{}, 0x06, 0x37, 0, nil, false
	case "GetSDRRepositoryInfo":
		return &ipmi.GetSDRRepositoryInfoCmd{}, 0x0a, 0x20, 0, nil, false
	case "ReserveSDRRepository":
		return &ipmi.ReserveSDRRepositoryCmd{}, 0x0a, 0x22, 0, nil, false
	}
	return nil, 0, 0, 0, nil, false
}

// c06Names: user names whose byte length and character count differ (the
// limit of 16 is in bytes: it is what the length byte and the BMC's field hold)
var c06Names = []string{"жжжжжжжжж", "жжжжжжжж", "ééééééééé", "aaaaaaaaaaaaaaaé", "aaaaaaaaaaaaaaé", "日本語日本語", "€€€€€", "€€€€€€", "𝔘𝔘𝔘𝔘", "𝔘𝔘𝔘𝔘𝔘", "\x00\x00", "abc\xff\xfe"}

type c06Worlds struct {
	less *World
	in   *World
	sess *bmc.V2Session
	n    int
	seed uint64
}

func newC06Worlds() *c06Worlds {
	cfg := histConfig(ref.Suite{Auth: 1, Integ: 1, Conf: 1})
	ws := &c06Worlds{less: newWorld(cfg, nil, nil), in: newWorld(cfg, nil, nil)}
	var err error
	ws.sess, err = ws.in.Conn.NewV2Session(ws.in.Ctx, &bmc.V2SessionOpts{SessionOpts: bmc.SessionOpts{Username: "c06", Password: cfg.Password, MaxPrivilegeLevel: ipmi.PrivilegeLevelAdministrator}, CipherSuites: []ipmi.CipherSuite{ipmi.CipherSuite3}})
	if err != nil {
		panic("C06 harness: handshake failed: " + err.Error())
	}
	return ws
}

// c06Setup handles the RMCP+ setup payloads at layer level.
func c06Setup(c c06Case) (string, string) {
	v := c.V
	var layer gopacket.SerializableLayer
	var want []byte
	wantErr := false
	alg := func(kind byte, a int64) []byte {
		if a < 0 { // wildcard
			return []byte{kind, 0, 0, 0, 0, 0, 0, 0}
		}
		return []byte{kind, 0, 0, 8, byte(a), 0, 0, 0}
	}
	switch c.Cmd {
	case "OpenSessionReq":
		r := &ipmi.OpenSessionReq{Tag: uint8(v[0]), MaxPrivilegeLevel: ipmi.PrivilegeLevel(v[1]), SessionID: uint32(v[2])}
		r.AuthenticationPayload = ipmi.AuthenticationPayload{Wildcard: v[3] < 0, Algorithm: ipmi.AuthenticationAlgorithm(max(v[3], 0))}
		r.IntegrityPayload = ipmi.IntegrityPayload{Wildcard: v[4] < 0, Algorithm: ipmi.IntegrityAlgorithm(max(v[4], 0))}
		r.ConfidentialityPayload = ipmi.ConfidentialityPayload{Wildcard: v[5] < 0, Algorithm: ipmi.ConfidentialityAlgorithm(max(v[5], 0))}
		layer = r
		want = cat([]byte{byte(v[0]), byte(v[1]), 0, 0}, le32b(uint32(v[2])), alg(0, v[3]), alg(1, v[4]), alg(2, v[5]))
	case "RAKPMessage1":
		r := &ipmi.RAKPMessage1{Tag: uint8(v[0]), ManagedSystemSessionID: uint32(v[1]), PrivilegeLevelLookup: v[2] != 0, MaxPrivilegeLevel: ipmi.PrivilegeLevel(v[3]), Username: string(pattern(int(v[4]), 0x61, 1))}
		copy(r.RemoteConsoleRandom[:], pattern(16, byte(v[5]), 1))
		layer = r
		role := byte(v[3])
		if v[2] == 0 {
			role |= 0x10
		}
		want = cat([]byte{byte(v[0]), 0, 0, 0}, le32b(uint32(v[1])), pattern(16, byte(v[5]), 1), []byte{role, 0, 0, byte(v[4])}, pattern(int(v[4]), 0x61, 1))
		wantErr = v[4] > 16
	case "RAKPMessage1Name":
		name := c06Names[v[0]]
		r := &ipmi.RAKPMessage1{Tag: 1, ManagedSystemSessionID: 2, PrivilegeLevelLookup: true, MaxPrivilegeLevel: 4, Username: name}
		layer = r
		want = cat([]byte{1, 0, 0, 0}, le32b(2), make([]byte, 16), []byte{4, 0, 0, byte(len(name))}, []byte(name))
		wantErr = len(name) > 16
		v = append(v, 0, 0, 0, int64(len(name)))
	case "RAKPMessage3":
		r := &ipmi.RAKPMessage3{Tag: uint8(v[0]), Status: ipmi.StatusCode(v[1]), ManagedSystemSessionID: uint32(v[2]), AuthCode: pattern(int(v[3]), 0xA0, 1)}
		layer = r
		want = cat([]byte{byte(v[0]), byte(v[1]), 0, 0}, le32b(uint32(v[2])))
		if v[1] == 0 {
			want = append(want, pattern(int(v[3]), 0xA0, 1)...)
		}
	}
	got, err := serialise(layer)
	if wantErr {
		if err == nil {
			return "C06/" + c.Cmd + "/oversized-username-not-rejected", fmt.Sprintf("a %d-byte user name was serialised as % x", v[len(v)-1], got)
		}
		return "", ""
	}
	if err != nil {
		return "C06/" + c.Cmd + "/serialise-error", err.Error()
	}
	if !bytes.Equal(got, want) {
		return "C06/" + c.Cmd + "/encoding", fmt.Sprintf("fields %v serialise to % x, the specification's encoding is % x", v, got, want)
	}
	return "", ""
}

// c06One sends the command outside and inside a session and has the
// reference BMC parse what arrives.
func c06One(ws *c06Worlds, c c06Case) (string, string) {
	if c.Cmd == "OpenSessionReq" || c.Cmd == "RAKPMessage1" || c.Cmd == "RAKPMessage3" || c.Cmd == "RAKPMessage1Name" {
		return c06Setup(c)
	}
	if c.Cmd == "HandshakeAfterHistory" {
		return c06Handshake(c)
	}
	if c.Cmd == "HandshakeName" {
		return c06HandshakeName(c)
	}
	if c.Cmd == "HandshakeRspPriv" {
		return c06HandshakeRspPriv(c)
	}
	if strings.HasPrefix(c.Cmd, "Wrapper/") {
		return c06Wrapper(ws, c)
	}
	ws.seed++
	env.InstallRand(1<<32 + ws.seed)
	for _, mode := range []string{"sessionless", "insession", "insession-retried"} {
		w, conn := ws.less, bmc.Connection(ws.less.Conn)
		if mode != "sessionless" {
			w, conn = ws.in, ws.sess
		}
		wantTx := 1
		w.T.Menu = nil
		if mode == "insession-retried" {
			// the first attempt is answered "node busy": the retransmission is a request too
			wantTx = 2
			first := true
			w.T.Menu = func(t *env.Transport, req []byte) []env.Answer {
				if first {
					first = false
					return []env.Answer{busyOtherRMCPSeq()}
				}
				return []env.Answer{env.Honest()}
			}
		}
		cmd, netfn, cmdno, lun, data, wantErr := c06Build(c)
		if cmd == nil {
			return "C06/harness", "unknown command " + c.Cmd
		}
		before := len(w.T.Log)
		w.T.BeginOp()
		var err error
		p := guard(func() { _, err = conn.SendCommand(w.Ctx, cmd) })
		if p != "" {
			return "C06/" + c.Cmd + "/panic", p
		}
		sent := w.T.Log[before:]
		if wantErr {
			if len(sent) != 0 || err == nil {
				return "C06/" + c.Cmd + "/invalid-request-not-refused", fmt.Sprintf("%s %v (%s): %d datagrams sent, err=%v", c.Cmd, c.V, mode, len(sent), err)
			}
			continue
		}
		w.T.Menu = nil
		if len(sent) != wantTx {
			return "C06/" + c.Cmd + "/transmissions", fmt.Sprintf("%s %v (%s): %d datagrams, want %d (err %v)", c.Cmd, c.V, mode, len(sent), wantTx, err)
		}
		for _, ex := range sent {
			rx := ex.Rx
			if len(rx.Problems) > 0 {
				return "C06/" + c.Cmd + "/malformed/" + problemClass(rx.Problems[0]), fmt.Sprintf("%s %v (%s): %s", c.Cmd, c.V, mode, strings.Join(rx.Problems, "; "))
			}
			m := rx.Msg
			if m == nil {
				return "C06/" + c.Cmd + "/no-message", fmt.Sprintf("%s %v (%s): no IPMI message in % x", c.Cmd, c.V, mode, ex.Req)
			}
			if m.NetFn != netfn || m.Cmd != cmdno || m.LUN1 != lun || !bytes.Equal(m.Data, data) || m.Addr1 != 0x20 || m.Addr2 != 0x81 {
				return "C06/" + c.Cmd + "/encoding", fmt.Sprintf("%s fields %v (%s): BMC received NetFn %#02x cmd %#02x LUN %d data % x rs %#02x rq %#02x; the specification's encoding is NetFn %#02x cmd %#02x LUN %d data % x rs 20 rq 81", c.Cmd, c.V, mode, m.NetFn, m.Cmd, m.LUN1, m.Data, m.Addr1, m.Addr2, netfn, cmdno, lun, data)
			}
		}
		// keep memory bounded
		ws.n++
		if ws.n%2000 == 0 {
			w.T.Log, w.BMC.Log = nil, nil
		}
	}
	return "", ""
}

func runC06(r *rep.R) {
	r.SetRule("every request layer x every value of each field (8-bit fields and narrower: whole wire domain; 16/32-bit fields: boundary alphabet; each axis complete against boundary values of the others), sent through V2Sessionless.SendCommand and V2Session.SendCommand; the reference BMC parses RMCP header, v2.0 wrapper, message addresses/NetFn/LUN/command/checksums and compares the body with an independently written encoding; RMCP+ setup payloads compared at layer level for all field values (and through NewV2Session in C01). distinct = distinct (command, field values)")
	ws := newC06Worlds()
	var idx int64
	do := func(cmd string, v ...int64) {
		idx++
		if !r.Mine(idx) {
			return
		}
		c := c06Case{Cmd: cmd, V: v}
		k, msg := c06One(ws, c)
		r.Eval(rep.H(cmd, fmt.Sprint(v)), true)
		if k != "" {
			r.Outcome("violation")
			r.Violate(k, msg, "c06", c, nil)
			return
		}
		if cmd == "SetSessionPrivilegeLevel" && v[0] == 1 || cmd == "RAKPMessage1" && v[4] > 16 || cmd == "RAKPMessage1Name" && len(c06Names[v[0]]) > 16 {
			r.Outcome("invalid-request-refused")
			return
		}
		r.Outcome(map[bool]string{true: "setup-payload-encoding-equal", false: "request-parsed-equal"}[cmd == "OpenSessionReq" || strings.HasPrefix(cmd, "RAKP")])
		if r.WantSample() && idx%503 == 0 {
			r.Sample(c)
		}
	}
	u16 := []int64{0, 1, 0xFF, 0x100, 0x7FFF, 0x8000, 0xFFFE, 0xFFFF}
	u32 := []int64{0, 1, 0xFF, 0x100, 0xFFFF, 0x10000, 0x7FFFFFFF, 0x80000000, 0xFFFFFFFE, 0xFFFFFFFF, 0x11223344}
	for ext := int64(0); ext < 2; ext++ {
		for ch := int64(0); ch < 16; ch++ {
			for priv := int64(0); priv < 16; priv++ {
				do("GetChannelAuthenticationCapabilities", ext, ch, priv)
			}
		}
	}
	for ch := int64(0); ch < 16; ch++ {
		for pt := int64(0); pt < 64; pt++ {
			do("GetChannelCipherSuites", ch, pt, (ch*5+pt)%64)
		}
		for li := int64(0); li < 64; li++ {
			do("GetChannelCipherSuites", ch, li%3, li)
		}
	}
	for i := int64(0); i < 256; i++ {
		do("GetSessionInfo", i, 0x5A, 0x01020304)
		do("GetSessionInfo", 0xFE, i, 0)
		do("SetSessionPrivilegeLevel", i%16)
		do("ChassisControl", i%16)
		do("GetSDR", 0, 0, i, 5)
		do("GetSDR", 0x1234, 0xFFFF, 5, i)
		for lun := int64(0); lun < 4; lun++ {
			do("GetSensorReading", i, lun)
		}
		do("GetDCMISensorInfo", i, 0x40, 0, 1)
		do("GetDCMISensorInfo", 1, i, 0, 1)
		do("GetDCMISensorInfo", 1, 0x40, i, 7)
		do("GetDCMISensorInfo", 1, 0x40, 0, i)
		do("CloseSession", 0, i)
	}
	for _, a := range u32 {
		do("GetSessionInfo", 0xFF, 0, a)
		do("CloseSession", a, 0x77)
	}
	for _, a := range u16 {
		for _, b := range u16 {
			do("GetSDR", a, b, 0, 0xFF)
		}
	}
	for p := int64(1); p <= 5; p++ {
		do("GetDCMICapabilitiesInfo", p)
	}
	do("GetPowerReading", 1, 0)
	do("GetPowerReading", 1, 300)
	for _, s := range []int64{0, 1, 59, 60, 61, 119, 3599, 3600, 3601, 7200, 86399, 86400, 86401, 172800, 63 * 86400, 64 * 86400, 100 * 86400} {
		do("GetPowerReading", 2, s)
	}
	for s := int64(0); s < 4000; s += 7 {
		do("GetPowerReading", 2, s)
	}
	for _, c := range []string{"GetDeviceID", "GetChassisStatus", "GetSystemGUID", "GetSDRRepositoryInfo", "ReserveSDRRepository"} {
		do(c)
	}
	// the message layer's addressing extensions and NetFn field through the send paths
	for v := int64(0); v < 256; v++ {
		do("RawGroup", v, v^0x5A, v%5)
		do("RawOEM", v|v<<8|(255-v)<<16, v, v%4)
	}
	for _, ent := range []int64{0, 1, 0xFF, 0x100, 0xFFFF, 0x10000, 0x7FFFFF, 0x800000, 0xFFFFFF, 343} {
		do("RawOEM", ent, 0x10, 2)
	}
	for nf := int64(0); nf < 0x40; nf += 2 {
		if nf == 0x2c || nf == 0x2e {
			continue
		}
		for _, cmdno := range []int64{0, 1, 0x7F, 0x80, 0xFF} {
			do("RawNetFn", nf, cmdno, (nf/2)%3)
		}
	}
	// setup payloads on the wire after the connection's buffer has been used
	for hist := int64(0); hist < 4; hist++ {
		for ul := int64(0); ul <= 16; ul++ {
			for lk := int64(0); lk < 2; lk++ {
				do("HandshakeAfterHistory", hist, ul, lk, (ul+lk)%6)
			}
		}
	}
	if thorough(r) {
		// the 16-bit request fields over their whole domain
		for v := int64(0); v < 0x10000; v++ {
			do("GetSDR", v, 0xFFFF-v, v&0xFF, (v>>8)&0xFF)
			do("GetSDR", 0x0001, v, 0, 5)
		}
		// every (offset, length) pair of a partial read
		for off := int64(0); off < 256; off++ {
			for ln := int64(0); ln < 256; ln++ {
				do("GetSDR", 0xBEEF, 0x0102, off, ln)
			}
		}
	}
	// requests built by the high-level wrappers
	for v := int64(0); v < 256; v++ {
		do("Wrapper/GetSensorReading", v)
		do("Wrapper/dcmi.GetDCMISensorInfo", 0x01, v, 0, 1)
		do("Wrapper/dcmi.GetDCMISensorInfo", 0x01, 0x37, v, 9)
		do("Wrapper/dcmi.GetDCMISensorInfo", v, 0x40, 0, v)
		if v < 16 {
			do("Wrapper/ChassisControl", v)
			do("Wrapper/SetSessionPrivilegeLevel", v)
			do("Wrapper/GetChannelAuthenticationCapabilities", v%2, v, 15-v)
		}
		if v < 4 {
			do("Wrapper/dcmi.GetPowerReading", v)
		}
		do("Wrapper/GetSessionInfo", 0xFE, v, 0)
		do("Wrapper/GetSessionInfo", v, 0, 0)
	}
	for _, id := range u32 {
		do("Wrapper/GetSessionInfo", 0xFF, 0, id)
	}
	for which := int64(0); which < 5; which++ {
		do("Wrapper/NoBody", which)
		do("Wrapper/dcmi.Capabilities", which+1, 0)
		do("Wrapper/dcmi.Capabilities", which+1, 1)
	}
	do("Wrapper/GetSessionPrivilegeLevel", 0)
	do("Wrapper/sessionless.GetSystemGUID", 0)
	for v := int64(0); v < 16; v++ {
		do("Wrapper/sessionless.GetChannelAuthenticationCapabilities", v%2, v, 15-v)
	}
	for lunv := int64(0); lunv < 4; lunv++ {
		for lin := int64(0); lin < 12; lin++ {
			for _, num := range []int64{0, 1, 0x37, 0x80, 0xFF} {
				do("Wrapper/SensorReader", lunv, num, lin)
			}
		}
	}
	for req := int64(0); req < 6; req++ {
		for ans := int64(0); ans < 16; ans++ {
			for lk := int64(0); lk < 2; lk++ {
				do("HandshakeRspPriv", req, ans, lk)
			}
		}
	}
	// user names as they reach the wire through NewV2Session
	for i := range c06HSNames() {
		for lk := int64(0); lk < 2; lk++ {
			do("HandshakeName", int64(i), lk)
		}
	}
	// RMCP+ setup payloads
	for tag := int64(0); tag < 256; tag++ {
		do("OpenSessionReq", tag, tag%16, 1, 1, 1, 1)
		do("RAKPMessage1", tag, 0x11223344, tag%2, tag%16, tag%17, tag)
		do("RAKPMessage3", tag, 0, 0x11223344, 20)
		do("RAKPMessage3", 0, tag, 0x11223344, 20)
	}
	for _, sid := range u32 {
		for priv := int64(0); priv < 16; priv++ {
			do("OpenSessionReq", 0, priv, sid, 3, 4, 1)
		}
		do("RAKPMessage1", 0, sid, 1, 4, 5, 9)
		do("RAKPMessage3", 0, 0, sid, 32)
	}
	for a := int64(-1); a < 64; a++ {
		do("OpenSessionReq", 0, 4, 1, a, 1, 1)
		do("OpenSessionReq", 0, 4, 1, 1, a, 1)
		do("OpenSessionReq", 0, 4, 1, 1, 1, a)
	}
	for ul := int64(0); ul <= 17; ul++ {
		for lk := int64(0); lk < 2; lk++ {
			for priv := int64(0); priv < 16; priv++ {
				do("RAKPMessage1", 0, 1, lk, priv, ul, 0x40)
			}
		}
	}
	for i := range c06Names {
		do("RAKPMessage1Name", int64(i))
	}
	for _, n := range []int64{0, 12, 16, 20, 32} {
		do("RAKPMessage3", 0, 0, 1, n)
		do("RAKPMessage3", 0, 0x0F, 1, n)
	}
	r.Assume("field values are restricted to what the wire field can hold (e.g. channel 0..15); out-of-domain caller values are the caller's error and not judged")
	r.Assume("16/32-bit identifiers range over boundary alphabets")
}

// c06Handshake: the RMCP+ setup payloads as they reach the wire through
// NewV2Session when the connection's buffer has already carried other
// packets. v = [history kind, user-name length, lookup, privilege].
func c06Handshake(c c06Case) (string, string) {
	v := c.V
	cfg := histConfig(ref.Suite{Auth: 1, Integ: 1, Conf: 1})
	w := newWorld(cfg, nil, nil)
	open := func(user string, lookup bool, priv ipmi.PrivilegeLevel) (*bmc.V2Session, error) {
		return w.Conn.NewV2Session(w.Ctx, &bmc.V2SessionOpts{SessionOpts: bmc.SessionOpts{Username: user, Password: cfg.Password, MaxPrivilegeLevel: priv}, PrivilegeLevelLookup: lookup, CipherSuites: []ipmi.CipherSuite{ipmi.CipherSuite3}})
	}
	switch v[0] {
	case 1:
		w.Conn.GetSystemGUID(w.Ctx)
	case 2, 3:
		s, err := open("first", false, ipmi.PrivilegeLevelAdministrator)
		if err != nil {
			return "C06/HandshakeAfterHistory/harness", err.Error()
		}
		s.GetDeviceID(w.Ctx)
		if v[0] == 3 {
			s.SendCommand(w.Ctx, &rawCmd{op: ipmi.Operation{Function: 0x30, Command: 0x42}, body: pattern(200, 0xFF, 0)})
		}
		s.Close(w.Ctx)
	}
	mark := len(w.BMC.Log)
	s, err := open(string(pattern(int(v[1]), 0x61, 1)), v[2] != 0, ipmi.PrivilegeLevel(v[3]))
	if err != nil {
		return "C06/HandshakeAfterHistory/handshake-failed", fmt.Sprintf("history kind %d, user name length %d: %v; BMC saw %v", v[0], v[1], err, problemsOf(w.BMC))
	}
	s.Close(w.Ctx)
	for i, rx := range w.BMC.Log[mark:] {
		if len(rx.Problems) > 0 {
			return "C06/HandshakeAfterHistory/malformed/" + rx.Name, fmt.Sprintf("after history kind %d, handshake datagram %d (%s, user name length %d) is malformed: %s; bytes % x", v[0], i, rx.Name, v[1], strings.Join(rx.Problems, "; "), rx.Raw)
		}
	}
	return "", ""
}

// c06Wrapper: requests built by the high-level wrappers (the methods of
// V2Session, the DCMI session commander, the sensor readers) from the caller's
// arguments, as they reach the BMC.
func c06Wrapper(ws *c06Worlds, c c06Case) (string, string) {
	v := c.V
	w, sess := ws.in, ws.sess
	// other cases build worlds of their own, which restarts the process-wide
	// random stream: give this long-lived session a stream position of its own
	ws.seed++
	env.InstallRand(1<<32 + ws.seed)
	var netfn, cmdno, lun byte
	var data []byte
	var call func()
	switch c.Cmd {
	case "Wrapper/ChassisControl":
		netfn, cmdno, data = 0x00, 0x02, []byte{byte(v[0])}
		call = func() { sess.ChassisControl(w.Ctx, ipmi.ChassisControl(v[0])) }
	case "Wrapper/GetSensorReading":
		netfn, cmdno, data = 0x04, 0x2d, []byte{byte(v[0])}
		call = func() { sess.GetSensorReading(w.Ctx, uint8(v[0])) }
	case "Wrapper/SetSessionPrivilegeLevel":
		netfn, cmdno, data = 0x06, 0x3b, []byte{byte(v[0])}
		call = func() { sess.SetSessionPrivilegeLevel(w.Ctx, ipmi.PrivilegeLevel(v[0])) }
	case "Wrapper/GetSessionInfo":
		req := &ipmi.GetSessionInfoReq{Index: ipmi.SessionIndex(v[0]), Handle: ipmi.SessionHandle(v[1]), ID: uint32(v[2])}
		netfn, cmdno, data = 0x06, 0x3d, []byte{byte(v[0])}
		switch v[0] {
		case 0xFE:
			data = append(data, byte(v[1]))
		case 0xFF:
			data = append(data, le32b(uint32(v[2]))...)
		}
		call = func() { sess.GetSessionInfo(w.Ctx, req) }
	case "Wrapper/GetChannelAuthenticationCapabilities":
		req := &ipmi.GetChannelAuthenticationCapabilitiesReq{ExtendedData: v[0] != 0, Channel: ipmi.Channel(v[1]), MaxPrivilegeLevel: ipmi.PrivilegeLevel(v[2])}
		netfn, cmdno, data = 0x06, 0x38, []byte{byte(v[0])<<7 | byte(v[1]), byte(v[2])}
		call = func() { sess.GetChannelAuthenticationCapabilities(w.Ctx, req) }
	case "Wrapper/dcmi.GetDCMISensorInfo":
		req := &dcmi.GetDCMISensorInfoReq{Type: ipmi.SensorType(v[0]), Entity: ipmi.EntityID(v[1]), Instance: ipmi.EntityInstance(v[2]), InstanceStart: uint8(v[3])}
		start := byte(v[3])
		if v[2] != 0 {
			start = 0
		}
		netfn, cmdno, data = 0x2c, 0x07, []byte{0xDC, byte(v[0]), byte(v[1]), byte(v[2]), start}
		call = func() { dcmi.NewSessionCommander(sess).GetDCMISensorInfo(w.Ctx, req) }
	case "Wrapper/dcmi.GetPowerReading":
		req := &dcmi.GetPowerReadingReq{Mode: dcmi.SystemPowerStatisticsMode(v[0])}
		netfn, cmdno = 0x2c, 0x02
		call = func() { dcmi.NewSessionCommander(sess).GetPowerReading(w.Ctx, req) }
	case "Wrapper/NoBody":
		// wrappers of commands without request data; v = [which]
		type nb struct {
			netfn, cmd byte
			f          func()
		}
		tab := []nb{
			{0x06, 0x37, func() { sess.GetSystemGUID(w.Ctx) }},
			{0x06, 0x01, func() { sess.GetDeviceID(w.Ctx) }},
			{0x00, 0x01, func() { sess.GetChassisStatus(w.Ctx) }},
			{0x0a, 0x20, func() { sess.GetSDRRepositoryInfo(w.Ctx) }},
			{0x0a, 0x22, func() { sess.ReserveSDRRepository(w.Ctx) }},
		}
		e := tab[int(v[0])%len(tab)]
		netfn, cmdno, data = e.netfn, e.cmd, nil
		call = e.f
	case "Wrapper/sessionless.GetChannelAuthenticationCapabilities":
		req := &ipmi.GetChannelAuthenticationCapabilitiesReq{ExtendedData: v[0] != 0, Channel: ipmi.Channel(v[1]), MaxPrivilegeLevel: ipmi.PrivilegeLevel(v[2])}
		w = ws.less
		netfn, cmdno, data = 0x06, 0x38, []byte{byte(v[0])<<7 | byte(v[1]), byte(v[2])}
		call = func() { ws.less.Conn.GetChannelAuthenticationCapabilities(w.Ctx, req) }
	case "Wrapper/sessionless.GetSystemGUID":
		w = ws.less
		netfn, cmdno, data = 0x06, 0x37, nil
		call = func() { ws.less.Conn.GetSystemGUID(w.Ctx) }
	case "Wrapper/GetSessionPrivilegeLevel":
		netfn, cmdno, data = 0x06, 0x3b, []byte{0}
		call = func() { sess.GetSessionPrivilegeLevel(w.Ctx) }
	case "Wrapper/dcmi.Capabilities":
		// the five parameter-specific wrappers of the DCMI commander; v = [parameter 1..5, in session?]
		var sl dcmi.SessionlessCommands = dcmi.NewSessionlessCommander(ws.less.Conn)
		if v[1] != 0 {
			sl = dcmi.NewSessionCommander(sess)
		} else {
			w = ws.less
		}
		netfn, cmdno, data = 0x2c, 0x01, []byte{0xDC, byte(v[0])}
		call = func() {
			switch v[0] {
			case 1:
				sl.GetDCMICapabilitiesInfoSupportedCapabilities(w.Ctx)
			case 2:
				sl.GetDCMICapabilitiesInfoMandatoryPlatformAttrs(w.Ctx)
			case 3:
				sl.GetDCMICapabilitiesInfoOptionalPlatformAttrs(w.Ctx)
			case 4:
				sl.GetDCMICapabilitiesInfoManageabilityAccessAttrs(w.Ctx)
			case 5:
				sl.GetDCMICapabilitiesInfoEnhancedSystemPowerStatisticsAttrs(w.Ctx)
			}
		}
	case "Wrapper/SensorReader":
		// v = [owner LUN, sensor number, linearisation]
		rec := c15Record(c15Case{Fmt: 0, Lin: int(v[2]), M: 1})
		rec[1], rec[2] = byte(v[0]), byte(v[1])
		var fsr ipmi.FullSensorRecord
		if err := fsr.DecodeFromBytes(rec, gopacket.NilDecodeFeedback); err != nil {
			return "C06/" + c.Cmd + "/harness", err.Error()
		}
		reader, err := bmc.NewSensorReader(&fsr)
		if err != nil {
			return "C06/" + c.Cmd + "/harness", err.Error()
		}
		netfn, cmdno, lun, data = 0x04, 0x2d, byte(v[0]), []byte{byte(v[1])}
		call = func() { reader.Read(w.Ctx, sess) }
	default:
		return "C06/harness", "unknown wrapper " + c.Cmd
	}
	before := len(w.T.Log)
	w.T.BeginOp()
	if p := guard(call); p != "" {
		return "C06/" + c.Cmd + "/panic", p
	}
	sent := w.T.Log[before:]
	ws.n++
	if ws.n%2000 == 0 {
		defer func() { w.T.Log, w.BMC.Log = nil, nil }()
	}
	if c.Cmd == "Wrapper/SetSessionPrivilegeLevel" && v[0] == 1 {
		if len(sent) != 0 {
			return "C06/" + c.Cmd + "/invalid-request-not-refused", fmt.Sprintf("%d datagrams sent for privilege level callback", len(sent))
		}
		return "", ""
	}
	if len(sent) != 1 {
		return "C06/" + c.Cmd + "/transmissions", fmt.Sprintf("%s %v: %d datagrams, want 1", c.Cmd, v, len(sent))
	}
	rx := sent[0].Rx
	if rx == nil || rx.Msg == nil {
		return "C06/" + c.Cmd + "/no-message", fmt.Sprintf("%s %v: no IPMI message in % x", c.Cmd, v, sent[0].Req)
	}
	if len(rx.Problems) > 0 {
		return "C06/" + c.Cmd + "/malformed/" + problemClass(rx.Problems[0]), fmt.Sprintf("%s %v: %s", c.Cmd, v, strings.Join(rx.Problems, "; "))
	}
	m := rx.Msg
	if c.Cmd == "Wrapper/dcmi.GetPowerReading" {
		// body layout checked at command level; here: the mode is the caller's
		if m.NetFn != netfn || m.Cmd != cmdno || len(m.Data) < 2 || m.Data[0] != 0xDC || m.Data[1] != byte(v[0]) {
			return "C06/" + c.Cmd + "/encoding", fmt.Sprintf("mode %d: BMC received NetFn %#02x cmd %#02x data % x", v[0], m.NetFn, m.Cmd, m.Data)
		}
		return "", ""
	}
	if m.NetFn != netfn || m.Cmd != cmdno || m.LUN1 != lun || !bytes.Equal(m.Data, data) {
		return "C06/" + c.Cmd + "/encoding", fmt.Sprintf("%s arguments %v: BMC received NetFn %#02x cmd %#02x LUN %d data % x; the caller's request is NetFn %#02x cmd %#02x LUN %d data % x", c.Cmd, v, m.NetFn, m.Cmd, m.LUN1, m.Data, netfn, cmdno, lun, data)
	}
	return "", ""
}

// c06HandshakeRspPriv: the BMC's Open Session Response carries a maximum
// privilege level other than the requested one (13.18 allows it); RAKP Message
// 1 must still carry the caller's requested level and lookup mode. v = [requested, answered, lookup].
func c06HandshakeRspPriv(c c06Case) (string, string) {
	cfg := histConfig(ref.Suite{Auth: 1, Integ: 1, Conf: 1})
	ans := byte(c.V[1])
	cfg.OpenRspPriv = &ans
	w := newWorld(cfg, nil, nil)
	var err error
	p := guard(func() {
		var s *bmc.V2Session
		s, err = w.Conn.NewV2Session(w.Ctx, &bmc.V2SessionOpts{SessionOpts: bmc.SessionOpts{Username: "u", Password: cfg.Password, MaxPrivilegeLevel: ipmi.PrivilegeLevel(c.V[0])}, PrivilegeLevelLookup: c.V[2] != 0, CipherSuites: []ipmi.CipherSuite{ipmi.CipherSuite3}})
		if err == nil {
			s.Close(w.Ctx)
		}
	})
	if p != "" {
		return "C06/HandshakeRspPriv/panic", p
	}
	for _, rx := range w.BMC.Log {
		if rx.Name != "RAKP Message 1" {
			continue
		}
		want := byte(c.V[0])
		if c.V[2] == 0 {
			want |= 0x10
		}
		if got := byte(rx.Fields["role"]); got != want {
			return "C06/HandshakeRspPriv/role", fmt.Sprintf("requested privilege %d (lookup %v), Open Session Response said %d: RAKP Message 1 carries role byte %#02x, the caller's is %#02x", c.V[0], c.V[2] != 0, ans, got, want)
		}
		return "", ""
	}
	return "C06/HandshakeRspPriv/no-rakp1", fmt.Sprintf("no RAKP Message 1 reached the BMC (err %v)", err)
}

// c06HSNames: user names given to NewV2Session: white space and control
// characters at the ends and inside, multi-byte text, boundary lengths 15..18.
func c06HSNames() []string {
	out := append([]string{}, c06Names[:10]...)
	for _, core := range []string{"operator", "a", "", "sixteen_bytes_xx", "fifteen_bytes_x", "seventeen_bytes_x"} {
		for _, pre := range []string{"", " ", "\t", "\n"} {
			for _, suf := range []string{"", " ", "\n", "\r\n", "  "} {
				out = append(out, pre+core+suf)
			}
		}
	}
	out = append(out, "admin"+strings.Repeat(" ", 11), "admin"+strings.Repeat(" ", 12), "in ner", "UPPER", "MiXed", "x\x7f", "\xa0nbsp\xa0")
	return out
}

// c06HandshakeName: the user name in RAKP Message 1 as sent by NewV2Session
// must be the caller's, byte for byte; a name of more than 16 bytes is an
// error and nothing naming a shortened user reaches the BMC. v = [name, lookup].
func c06HandshakeName(c c06Case) (string, string) {
	name := c06HSNames()[c.V[0]]
	cfg := histConfig(ref.Suite{Auth: 1, Integ: 1, Conf: 1})
	cfg.Username, cfg.CheckUser = []byte(name), true
	w := newWorld(cfg, nil, nil)
	var s *bmc.V2Session
	var err error
	p := guard(func() {
		s, err = w.Conn.NewV2Session(w.Ctx, &bmc.V2SessionOpts{SessionOpts: bmc.SessionOpts{Username: name, Password: cfg.Password, MaxPrivilegeLevel: ipmi.PrivilegeLevelOperator}, PrivilegeLevelLookup: c.V[1] != 0, CipherSuites: []ipmi.CipherSuite{ipmi.CipherSuite3}})
	})
	if p != "" {
		return "C06/HandshakeName/panic", p
	}
	var sent []string
	for _, rx := range w.BMC.Log {
		if rx.Name == "RAKP Message 1" && len(rx.Pkt.Payload) >= 28 {
			sent = append(sent, string(rx.Pkt.Payload[28:]))
		}
	}
	if len(name) > 16 {
		if err == nil || len(sent) > 0 {
			return "C06/HandshakeName/oversized-username-not-rejected", fmt.Sprintf("user name %q (%d bytes): err=%v, RAKP Message 1 sent naming %q", name, len(name), err, sent)
		}
		return "", ""
	}
	if len(sent) == 0 || sent[0] != name {
		return "C06/HandshakeName/username-altered", fmt.Sprintf("user name %q (%d bytes) reached the BMC as %q (err=%v)", name, len(name), sent, err)
	}
	if err != nil {
		return "C06/HandshakeName/handshake-failed", fmt.Sprintf("user name %q: %v; BMC saw %v", name, err, problemsOf(w.BMC))
	}
	s.Close(w.Ctx)
	return "", ""
}

// busyOtherRMCPSeq: a node-busy reply whose RMCP header carries the BMC's own
// sequence number (0x2A) instead of 0xFF; what the console sends next must
// still start with its own RMCP header.
func busyOtherRMCPSeq() env.Answer {
	return env.Raw("node-busy-other-rmcp-seq", func(t *env.Transport, rx *ref.Rx) []byte {
		if rx == nil || rx.Msg == nil {
			return nil
		}
		var body []byte
		if rx.Msg.NetFn == 0x2c && len(rx.Msg.Data) > 0 {
			body = []byte{rx.Msg.Data[0]}
		}
		d := t.BMC.Respond(rx, 0xC0, body)
		d[2] = 0x2A
		return d
	})
}
