package checks

import (
	"bytes"
	"crypto/hmac"
	"crypto/md5"
	"crypto/sha256"
	"encoding/json"
	"fmt"
	"hash"

	"github.com/gebn/bmc/pkg/iana"
	"github.com/gebn/bmc/pkg/ipmi"
	"github.com/google/gopacket"
	"github.com/google/gopacket/layers"

	"verif/env"
	"verif/rep"
)

// C08: serialise-then-decode is the identity for two-way layers.

func init() {
	register(&Check{ID: "C08", Run: runC08, Shards: 16, MinOutcomes: 5})
	Replayers["c08"] = func(raw json.RawMessage) (string, bool) {
		var c c08Case
		json.Unmarshal(raw, &c)
		msg := c08One(c)
		return fmt.Sprintf("%+v: %s", c, msg), msg != ""
	}
}

type c08Case struct {
	Layer string `json:"layer"`
	P     []int  `json:"p"` // layer-specific parameters
	N     int    `json:"n"` // inner payload length
}

func integHash(alg, key int) hash.Hash {
	k := [][]byte{[]byte("k"), pattern(20, 0x10, 3), pattern(64, 0xF0, 1)}[key]
	switch alg {
	case 1:
		return hmacSHA1_96(k)
	case 2:
		return hmac.New(md5.New, k)
	case 3:
		return truncHash{hmac.New(sha256.New, k), 16}
	}
	return nil
}

var dirtyFill byte

// dirtyBuffer returns a serialise buffer that has been used before: its
// memory holds stale bytes (alternating fills), as the connection's shared
// buffer does after earlier packets. A layer that leaves bytes unwritten
// produces different output on differently dirtied buffers.
func dirtyBuffer() gopacket.SerializeBuffer {
	dirtyFill += 0x5B
	if dirtyFill == 0 {
		dirtyFill = 0xA7
	}
	buf := gopacket.NewSerializeBuffer()
	pre, _ := buf.PrependBytes(384)
	for i := range pre { // before AppendBytes, which may move the data
		pre[i] = dirtyFill
	}
	app, _ := buf.AppendBytes(384)
	for i := range app {
		app[i] = dirtyFill ^ 0xFF
	}
	buf.Clear()
	return buf
}

func serialise(ls ...gopacket.SerializableLayer) ([]byte, error) {
	buf := dirtyBuffer()
	if err := gopacket.SerializeLayers(buf, sopts, ls...); err != nil {
		return nil, err
	}
	return append([]byte{}, buf.Bytes()...), nil
}

// c08Stacked decodes an RMCP datagram carrying the wrapper bytes b through the
// library's layered decode paths - gopacket.NewPacket from RMCP (registered
// decoders, session selector) and a DecodingLayerParser assembled as the root
// package does - and has same judge the wrapper layer each path yields.
func c08Stacked(b []byte, plus bool, same func(gopacket.Layer) string, h hash.Hash) string {
	dg := append([]byte{0x06, 0x00, 0xFF, 0x07}, b...)
	want := ipmi.LayerTypeV1Session
	if plus {
		want = ipmi.LayerTypeV2Session
	}
	if h == nil {
		// the registered decoder has no integrity algorithm to verify with: only
		// unauthenticated wrappers can go this way
		var pkt gopacket.Packet
		if p := guard(func() { pkt = gopacket.NewPacket(append([]byte{}, dg...), layers.LayerTypeRMCP, gopacket.Default) }); p != "" {
			return "gopacket.NewPacket panicked: " + p
		}
		l := pkt.Layer(want)
		if l == nil {
			return fmt.Sprintf("gopacket.NewPacket from RMCP on % x yields no %v layer (layers %v, error %v)", dg, want, pkt.Layers(), pkt.ErrorLayer())
		}
		if d := same(l); d != "" {
			return fmt.Sprintf("gopacket.NewPacket from RMCP on % x yields a different value: %s", dg, d)
		}
		// what follows the wrapper must carry the inner payload
		enc := false
		if z, ok := l.(*ipmi.V2Session); ok {
			enc = z.Encrypted // needs the session's cipher: nothing can follow here
		}
		if pl := l.LayerPayload(); len(pl) > 0 && !enc {
			ls := pkt.Layers()
			if ls[len(ls)-1] == l {
				return fmt.Sprintf("gopacket.NewPacket from RMCP on % x: the packet ends at the wrapper, its %d-byte inner payload is in no layer", dg, len(pl))
			}
		}
	}
	var rmcp layers.RMCP
	var sel ipmi.SessionSelector
	var v1 ipmi.V1Session
	v2 := ipmi.V2Session{IntegrityAlgorithm: h}
	var pay gopacket.Payload
	dlc := gopacket.DecodingLayerContainer(gopacket.DecodingLayerArray(nil))
	dlc = dlc.Put(&rmcp)
	dlc = dlc.Put(&sel)
	dlc = dlc.Put(&v1)
	dlc = dlc.Put(&v2)
	dlc = dlc.Put(&pay)
	decode := dlc.LayersDecoder(rmcp.LayerType(), gopacket.NilDecodeFeedback)
	var decoded []gopacket.LayerType
	var err error
	var typ gopacket.LayerType
	if p := guard(func() { typ, err = decode(append([]byte{}, dg...), &decoded) }); p != "" {
		return "DecodingLayerParser panicked: " + p
	}
	found := false
	for _, t := range decoded {
		if t == want {
			found = true
		}
	}
	if !found {
		return fmt.Sprintf("layered decode (RMCP, session selector, wrappers) of % x did not reach the %v layer: decoded %v, stopped at %v, err %v", dg, want, decoded, typ, err)
	}
	var l gopacket.Layer = &v1
	if plus {
		l = &v2
	}
	if d := same(l); d != "" {
		return fmt.Sprintf("layered decode of % x yields a different value: %s", dg, d)
	}
	return ""
}

var u32s = []uint32{0, 1, 0xFF, 0x100, 0x7FFFFFFF, 0x80000000, 0xFFFFFFFE, 0xFFFFFFFF, 0x11223344}

func c08One(c c08Case) string {
	inner := pattern(c.N, byte(c.N), 13)
	p := c.P
	switch c.Layer {
	case "v1":
		x := &ipmi.V1Session{AuthType: ipmi.AuthenticationType(p[0]), Sequence: u32s[p[1]], ID: u32s[p[2]]}
		copy(x.AuthCode[:], pattern(16, byte(p[3]), byte(p[3])|1))
		if x.AuthType == ipmi.AuthenticationTypeNone {
			x.AuthCode = [16]byte{}
		}
		b, err := serialise(x, gopacket.Payload(inner))
		if err != nil {
			return "serialise: " + err.Error()
		}
		var y ipmi.V1Session
		if err := y.DecodeFromBytes(b, gopacket.NilDecodeFeedback); err != nil {
			return fmt.Sprintf("decode of own serialisation % x: %v", b, err)
		}
		if y.AuthType != x.AuthType || y.Sequence != x.Sequence || y.ID != x.ID || y.AuthCode != x.AuthCode || y.Length != uint8(c.N) || !bytes.Equal(y.LayerPayload(), inner) {
			return fmt.Sprintf("decoded %+v payload % x differs from serialised %+v payload % x", y, y.LayerPayload(), *x, inner)
		}
		b2, err := serialise(&y, gopacket.Payload(y.LayerPayload()))
		if err != nil || !bytes.Equal(b, b2) {
			return fmt.Sprintf("re-serialisation % x differs from % x (%v)", b2, b, err)
		}
		if msg := c08Stacked(b, false, func(l gopacket.Layer) string {
			z, ok := l.(*ipmi.V1Session)
			if !ok || z.AuthType != x.AuthType || z.Sequence != x.Sequence || z.ID != x.ID || z.AuthCode != x.AuthCode || !bytes.Equal(z.LayerPayload(), inner) {
				return fmt.Sprintf("wrapper %+v payload % x", l, l.LayerPayload())
			}
			return ""
		}, nil); msg != "" {
			return msg
		}
	case "v2":
		// p: payload type sel, flags (bit0 enc, bit1 auth), sid, seq, integ alg, key
		pts := []ipmi.PayloadDescriptor{ipmi.PayloadDescriptorIPMI, ipmi.PayloadDescriptorOpenSessionReq, ipmi.PayloadDescriptorRAKPMessage1, ipmi.PayloadDescriptorRAKPMessage2, ipmi.PayloadDescriptorRAKPMessage3, ipmi.PayloadDescriptorRAKPMessage4, ipmi.PayloadDescriptorOpenSessionRsp,
			{PayloadType: ipmi.PayloadTypeOEM, Enterprise: iana.Enterprise(343), PayloadID: 0x1234}, {PayloadType: ipmi.PayloadTypeOEM, Enterprise: iana.Enterprise(0xFFFFFFFF), PayloadID: 0xFFFF}, {PayloadType: ipmi.PayloadTypeOEM}, {PayloadType: 0x20}, {PayloadType: 0x3F}}
		x := &ipmi.V2Session{PayloadDescriptor: pts[p[0]], Encrypted: p[1]&1 != 0, Authenticated: p[1]&2 != 0, ID: u32s[p[2]], Sequence: u32s[p[3]]}
		if x.Authenticated {
			x.IntegrityAlgorithm = integHash(p[4], p[5])
			if x.IntegrityAlgorithm == nil {
				return ""
			}
		}
		b, err := serialise(x, gopacket.Payload(inner))
		if err != nil {
			return "serialise: " + err.Error()
		}
		if x.Authenticated {
			// another wrapper is serialised in between (e.g. another session): x must
			// still be the value its bytes encode
			z := &ipmi.V2Session{PayloadDescriptor: x.PayloadDescriptor, Authenticated: true, ID: x.ID ^ 0x55, Sequence: x.Sequence + 1, IntegrityAlgorithm: integHash(p[4], (p[5]+1)%3)}
			if _, err := serialise(z, gopacket.Payload(pattern(c.N+3, 9, 1))); err != nil {
				return "serialise: " + err.Error()
			}
			if n := len(x.Signature); n > 0 && !bytes.Equal(x.Signature, b[len(b)-n:]) {
				return fmt.Sprintf("after another wrapper was serialised, the Signature field of the first (%x) no longer equals the AuthCode in its bytes (%x)", x.Signature, b[len(b)-n:])
			}
		}
		y := &ipmi.V2Session{}
		if x.Authenticated {
			y.IntegrityAlgorithm = integHash(p[4], p[5])
		}
		if err := y.DecodeFromBytes(b, gopacket.NilDecodeFeedback); err != nil {
			return fmt.Sprintf("decode of own serialisation % x: %v", b, err)
		}
		if y.PayloadDescriptor != x.PayloadDescriptor || y.Encrypted != x.Encrypted || y.Authenticated != x.Authenticated || y.ID != x.ID || y.Sequence != x.Sequence || y.Length != uint16(c.N) || y.Pad != x.Pad || !bytes.Equal(y.Signature, x.Signature) || !bytes.Equal(y.LayerPayload(), inner) {
			return fmt.Sprintf("decoded {%+v enc=%v auth=%v id=%x seq=%x len=%d pad=%d sig=%x} payload % x differs from serialised {%+v enc=%v auth=%v id=%x seq=%x len=%d pad=%d sig=%x} payload % x", y.PayloadDescriptor, y.Encrypted, y.Authenticated, y.ID, y.Sequence, y.Length, y.Pad, y.Signature, y.LayerPayload(), x.PayloadDescriptor, x.Encrypted, x.Authenticated, x.ID, x.Sequence, x.Length, x.Pad, x.Signature, inner)
		}
		if x.Authenticated {
			// independent check of the trailer: 0xFF pad to a multiple of 4, pad length, 0x07
			hl := 12
			if x.PayloadType == ipmi.PayloadTypeOEM {
				hl = 18
			}
			wantPad := (4 - (hl+c.N+2)%4) % 4
			tr := b[hl+c.N:]
			sig := len(x.Signature)
			if int(x.Pad) != wantPad || len(tr) != wantPad+2+sig || tr[wantPad] != byte(wantPad) || tr[wantPad+1] != 0x07 {
				return fmt.Sprintf("trailer % x: pad %d want %d (header %d + payload %d + 2)", tr, x.Pad, wantPad, hl, c.N)
			}
			for i := 0; i < wantPad; i++ {
				if tr[i] != 0xFF {
					return fmt.Sprintf("integrity pad byte %#02x", tr[i])
				}
			}
		}
		b2, err := serialise(y, gopacket.Payload(y.LayerPayload()))
		if err != nil || !bytes.Equal(b, b2) {
			return fmt.Sprintf("re-serialisation % x differs from % x (%v)", b2, b, err)
		}
		var h hash.Hash
		if x.Authenticated {
			h = integHash(p[4], p[5])
		}
		if msg := c08Stacked(b, true, func(l gopacket.Layer) string {
			z, ok := l.(*ipmi.V2Session)
			if !ok || z.PayloadDescriptor != x.PayloadDescriptor || z.Encrypted != x.Encrypted || z.Authenticated != x.Authenticated || z.ID != x.ID || z.Sequence != x.Sequence || !bytes.Equal(z.LayerPayload(), inner) {
				return fmt.Sprintf("wrapper %+v payload % x", l, l.LayerPayload())
			}
			return ""
		}, h); msg != "" {
			return msg
		}
	case "twice":
		// p: which layer (0 v1.5 wrapper, 1 v2.0 wrapper signed, 2 message, 3 AES); the
		// same datagram delivered twice (a duplicate) decodes twice, into one
		// long-lived value, to the same thing
		var b []byte
		var err error
		var mk func() decoder
		switch p[0] {
		case 0:
			b, err = serialise(&ipmi.V1Session{AuthType: ipmi.AuthenticationTypeNone, Sequence: 5, ID: 9}, gopacket.Payload(inner))
			mk = func() decoder { return &ipmi.V1Session{} }
		case 1:
			b, err = serialise(&ipmi.V2Session{PayloadDescriptor: ipmi.PayloadDescriptorIPMI, Authenticated: true, ID: 3, Sequence: 4, IntegrityAlgorithm: integHash(1, 1)}, gopacket.Payload(inner))
			mk = func() decoder { return &ipmi.V2Session{IntegrityAlgorithm: integHash(1, 1)} }
		case 2:
			b, err = serialise(&ipmi.Message{Operation: ipmi.Operation{Function: 0x07, Command: 0x01}, RemoteAddress: 0x81, LocalAddress: 0x20, Sequence: 1}, gopacket.Payload(inner))
			mk = func() decoder { return &ipmi.Message{} }
		default:
			key := [16]byte{1, 2, 3, 4, 5, 6, 7, 8, 9, 10, 11, 12, 13, 14, 15, 16}
			a, e := ipmi.NewAES128CBC(key)
			if e != nil {
				return e.Error()
			}
			b, err = serialise(a, gopacket.Payload(inner))
			mk = func() decoder { d, _ := ipmi.NewAES128CBC(key); return d }
		}
		if err != nil {
			return "serialise: " + err.Error()
		}
		one := mk()
		var pay [2][]byte
		for i := 0; i < 2; i++ {
			if err := one.DecodeFromBytes(append([]byte{}, b...), gopacket.NilDecodeFeedback); err != nil {
				return fmt.Sprintf("decode %d of the same bytes % x by one value: %v", i+1, b, err)
			}
			pay[i] = append([]byte{}, one.(interface{ LayerPayload() []byte }).LayerPayload()...)
		}
		if !bytes.Equal(pay[0], pay[1]) || !bytes.Equal(pay[0], inner) {
			return fmt.Sprintf("the same bytes decoded twice by one value give payloads % x and % x, serialised % x", pay[0], pay[1], inner)
		}
	case "v2hist":
		// p: kind of packet the wrapper's hash met before, integ alg, key. A
		// session signs what it sends and verifies what it receives with one
		// hash object: whatever was received (and rejected) before, the next
		// serialisation must still be the encoding of its value.
		h := integHash(p[1], p[2])
		if h == nil {
			return ""
		}
		good, err := serialise(&ipmi.V2Session{PayloadDescriptor: ipmi.PayloadDescriptorIPMI, Authenticated: true, ID: 0x0A0B0C0D, Sequence: 7, IntegrityAlgorithm: integHash(p[1], p[2])}, gopacket.Payload(pattern(c.N+5, 0x33, 1)))
		if err != nil {
			return "serialise: " + err.Error()
		}
		sigLen := h.Size()
		early := append([]byte{}, good...)
		switch p[0] {
		case 0:
			early = early[:len(early)-1]
		case 1:
			early = append(early, 0)
		case 2:
			early = early[:len(early)-sigLen]
		case 3:
			early[len(early)-1] ^= 1
		case 4:
			early = early[:14]
		case 5: // accepted as it is
		case 6:
			early[5] &^= 0x40
		case 7:
			early = early[:len(early)-sigLen/2]
		}
		rcv := &ipmi.V2Session{IntegrityAlgorithm: h}
		e := append([]byte{}, early...)
		rcv.DecodeFromBytes(e, gopacket.NilDecodeFeedback) // accepted or rejected: either way
		x := &ipmi.V2Session{PayloadDescriptor: ipmi.PayloadDescriptorIPMI, Encrypted: true, Authenticated: true, ID: 0x01020304, Sequence: 9, IntegrityAlgorithm: h}
		b, err := serialise(x, gopacket.Payload(inner))
		if err != nil {
			return "serialise: " + err.Error()
		}
		y := &ipmi.V2Session{IntegrityAlgorithm: integHash(p[1], p[2])}
		if err := y.DecodeFromBytes(append([]byte{}, b...), gopacket.NilDecodeFeedback); err != nil {
			return fmt.Sprintf("after the wrapper's hash had met the packet % x, the serialisation % x of a value does not decode (fresh hash, same key): %v", early, b, err)
		}
		if y.ID != x.ID || y.Sequence != x.Sequence || !y.Authenticated || !y.Encrypted || !bytes.Equal(y.LayerPayload(), inner) {
			return fmt.Sprintf("decoded %+v payload % x differs from serialised", y.PayloadDescriptor, y.LayerPayload())
		}
		// and the other way round: after that serialisation, decode again with the used hash
		z := &ipmi.V2Session{IntegrityAlgorithm: h}
		if err := z.DecodeFromBytes(append([]byte{}, b...), gopacket.NilDecodeFeedback); err != nil {
			return fmt.Sprintf("the used hash rejects the bytes it has just signed: %v", err)
		}
	case "msg":
		// p: netfn, lun1, lun2, seq, cmd, cc, body, enterprise sel, addr sel
		nf := ipmi.NetworkFunction(p[0])
		ents := []iana.Enterprise{0, 1, 343, 0x00FFFF, 0xFFFFFF}
		addrs := [][2]ipmi.Address{{0x20, 0x81}, {0x81, 0x20}, {0x00, 0xFF}, {0xFF, 0x00}}
		x := &ipmi.Message{Operation: ipmi.Operation{Function: nf, Command: ipmi.CommandNumber(p[4])},
			RemoteAddress: addrs[p[8]][0], LocalAddress: addrs[p[8]][1], RemoteLUN: ipmi.LUN(p[1]), LocalLUN: ipmi.LUN(p[2]), Sequence: uint8(p[3])}
		if !nf.IsRequest() {
			x.CompletionCode = ipmi.CompletionCode(p[5])
		}
		switch nf {
		case ipmi.NetworkFunctionGroupReq, ipmi.NetworkFunctionGroupRsp:
			x.Body = ipmi.BodyCode(p[6])
		case ipmi.NetworkFunctionOEMReq, ipmi.NetworkFunctionOEMRsp:
			x.Enterprise = ents[p[7]]
		}
		b, err := serialise(x, gopacket.Payload(inner))
		if err != nil {
			return "serialise: " + err.Error()
		}
		var y ipmi.Message
		if err := y.DecodeFromBytes(b, gopacket.NilDecodeFeedback); err != nil {
			return fmt.Sprintf("decode of own serialisation % x: %v", b, err)
		}
		if y.Operation != x.Operation || y.RemoteAddress != x.RemoteAddress || y.RemoteLUN != x.RemoteLUN || y.LocalAddress != x.LocalAddress || y.LocalLUN != x.LocalLUN || y.Sequence != x.Sequence || y.CompletionCode != x.CompletionCode || y.Checksum1 != x.Checksum1 || y.Checksum2 != x.Checksum2 || !bytes.Equal(y.LayerPayload(), inner) {
			return fmt.Sprintf("decoded %+v payload % x differs from serialised %+v payload % x", y, y.LayerPayload(), *x, inner)
		}
		b2, err := serialise(&y, gopacket.Payload(y.LayerPayload()))
		if err != nil || !bytes.Equal(b, b2) {
			return fmt.Sprintf("re-serialisation % x differs from % x (%v)", b2, b, err)
		}
	case "aes":
		var key [16]byte
		copy(key[:], pattern(16, byte(p[0]), byte(p[0])*3+1))
		x, err := ipmi.NewAES128CBC(key)
		if err != nil {
			return err.Error()
		}
		env.InstallRand(uint64(7 + p[1]))
		b, err := serialise(x, gopacket.Payload(inner))
		if err != nil {
			return "serialise: " + err.Error()
		}
		if len(b)%16 != 0 || len(b) < 32 || len(b) != 16+(c.N+1+15)/16*16 {
			return fmt.Sprintf("AES payload for %d plaintext bytes is %d bytes, want IV + %d", c.N, len(b), (c.N+1+15)/16*16)
		}
		wire := append([]byte{}, b...)
		y, _ := ipmi.NewAES128CBC(key)
		if err := y.DecodeFromBytes(b, gopacket.NilDecodeFeedback); err != nil {
			return fmt.Sprintf("decode of own serialisation (%d plaintext bytes): %v", c.N, err)
		}
		if !bytes.Equal(y.LayerPayload(), inner) {
			return fmt.Sprintf("decrypted payload % x differs from % x", y.LayerPayload(), inner)
		}
		env.InstallRand(uint64(7 + p[1]))
		b2, err := serialise(y, gopacket.Payload(append([]byte{}, y.LayerPayload()...)))
		if err != nil || !bytes.Equal(wire, b2) {
			return fmt.Sprintf("re-serialisation with the same IV differs: % x vs % x (%v)", b2, wire, err)
		}
	case "rakp1":
		x := &ipmi.RAKPMessage1{Tag: uint8(p[0]), ManagedSystemSessionID: u32s[p[1]], PrivilegeLevelLookup: p[2] != 0, MaxPrivilegeLevel: ipmi.PrivilegeLevel(p[3]), Username: string(pattern(p[4], 0x41, 1))}
		copy(x.RemoteConsoleRandom[:], pattern(16, byte(p[0]), 5))
		b, err := serialise(x)
		if p[4] > 16 {
			if err == nil {
				return fmt.Sprintf("user name of %d bytes was serialised (% x) instead of rejected", p[4], b)
			}
			return ""
		}
		if err != nil {
			return "serialise: " + err.Error()
		}
		var y ipmi.RAKPMessage1
		if err := y.DecodeFromBytes(b, gopacket.NilDecodeFeedback); err != nil {
			return fmt.Sprintf("decode of own serialisation % x: %v", b, err)
		}
		if y.Tag != x.Tag || y.ManagedSystemSessionID != x.ManagedSystemSessionID || y.RemoteConsoleRandom != x.RemoteConsoleRandom || y.PrivilegeLevelLookup != x.PrivilegeLevelLookup || y.MaxPrivilegeLevel != x.MaxPrivilegeLevel || y.Username != x.Username {
			return fmt.Sprintf("decoded %+v differs from serialised %+v", y, *x)
		}
		b2, err := serialise(&y)
		if err != nil || !bytes.Equal(b, b2) {
			return fmt.Sprintf("re-serialisation % x differs from % x (%v)", b2, b, err)
		}
	}
	return ""
}

func runC08(r *rep.R) {
	r.SetRule("for each two-way layer, every value of each field (small domains fully, 32-bit fields over a boundary alphabet) crossed with inner payload lengths 0..200: decode(serialise(x)) must equal x and return the inner payload, and serialise(decode(bytes)) must reproduce the bytes (AES: same IV via the rand seam); distinct = distinct (layer, parameters, payload length)")
	var idx int64
	do := func(c c08Case) {
		idx++
		if !r.Mine(idx) {
			return
		}
		p := guard(func() {
			if msg := c08One(c); msg != "" {
				r.Outcome(c.Layer + ":violation")
				r.Violate("C08/"+c.Layer, msg, "c08", c, nil)
			} else {
				r.Outcome(c.Layer + ":ok")
			}
		})
		if p != "" {
			r.Violate("C08/"+c.Layer+"/panic/"+siteKey(p), fmt.Sprintf("%+v: %s", c, p), "c08", c, nil)
		}
		r.Eval(rep.H(c.Layer, fmt.Sprint(c.P), c.N), true)
		if r.WantSample() && idx%1009 == 0 {
			r.Sample(c)
		}
	}
	lens := func(f func(n int)) {
		for n := 0; n <= 200; n++ {
			f(n)
		}
	}
	// v1.5 wrapper
	for _, at := range []int{0, 1, 2, 4, 5} {
		for seq := range u32s {
			for _, id := range []int{0, 3, 7, 8} {
				for _, ac := range []int{0, 0x11, 0xFF} {
					for _, n := range []int{0, 1, 7, 8, 200, 255} {
						do(c08Case{Layer: "v1", P: []int{at, seq, id, ac}, N: n})
					}
				}
			}
		}
		lens(func(n int) { do(c08Case{Layer: "v1", P: []int{at, 1, 8, 0x5A}, N: n}) })
	}
	for which := 0; which < 4; which++ {
		for _, n := range []int{0, 1, 7, 15, 16, 17, 100, 200} {
			do(c08Case{Layer: "twice", P: []int{which}, N: n})
		}
	}
	// v2.0 wrapper whose hash has verified (and rejected) packets before
	for kind := 0; kind < 8; kind++ {
		for alg := 1; alg <= 3; alg++ {
			for key := 0; key < 3; key++ {
				for _, n := range []int{0, 1, 2, 3, 4, 15, 16, 17, 63, 64, 65, 200} {
					do(c08Case{Layer: "v2hist", P: []int{kind, alg, key}, N: n})
				}
			}
		}
	}
	// v2.0 wrapper
	for pt := 0; pt < 12; pt++ {
		for flags := 0; flags < 4; flags++ {
			for alg := 1; alg <= 3; alg++ {
				for key := 0; key < 3; key++ {
					if flags&2 == 0 && (alg != 1 || key != 0) {
						continue
					}
					lens(func(n int) { do(c08Case{Layer: "v2", P: []int{pt, flags, 8, 1, alg, key}, N: n}) })
					for sid := range u32s {
						for seq := range u32s {
							if n := (sid*3 + seq) % 5; true {
								do(c08Case{Layer: "v2", P: []int{pt, flags, sid, seq, alg, key}, N: n})
							}
						}
					}
				}
			}
		}
	}
	// IPMI message
	for nf := 0; nf < 64; nf++ {
		for _, lun := range []int{0, 1, 2, 3} {
			for _, seq := range []int{0, 1, 62, 63} {
				for _, cmd := range []int{0, 1, 0x38, 0xFF} {
					for _, cc := range []int{0, 0xC0, 0xFF} {
						for _, body := range []int{0, 1, 0xDC, 0xFF} {
							if nf != 0x2c && nf != 0x2d && body != 0 {
								continue
							}
							if nf%2 == 0 && cc != 0 {
								continue
							}
							for ent := 0; ent < 5; ent++ {
								if nf != 0x2e && nf != 0x2f && ent != 0 {
									continue
								}
								for _, n := range []int{0, 1, 2, 3, 16, 200} {
									do(c08Case{Layer: "msg", P: []int{nf, lun, 3 - lun, seq, cmd, cc, body, ent, (lun + seq) % 4}, N: n})
								}
							}
						}
					}
				}
			}
		}
		lens(func(n int) { do(c08Case{Layer: "msg", P: []int{nf, 0, 0, 1, 0x3c, 0xC1, 0xDC, 2, 0}, N: n}) })
	}
	// AES-128-CBC
	for key := 0; key < 3; key++ {
		for iv := 0; iv < 3; iv++ {
			lens(func(n int) { do(c08Case{Layer: "aes", P: []int{key*0x55 + 1, iv}, N: n}) })
		}
	}
	// RAKP Message 1
	for ul := 0; ul <= 17; ul++ {
		for lk := 0; lk < 2; lk++ {
			for priv := 0; priv < 16; priv++ {
				for _, tag := range []int{0, 1, 0xFF} {
					for _, sid := range []int{0, 8, 7} {
						do(c08Case{Layer: "rakp1", P: []int{tag, sid, lk, priv, ul}})
					}
				}
			}
		}
	}
	r.Assume("32-bit session IDs / sequence numbers range over a 9-value boundary alphabet; AuthCode/key bytes over patterns")
	r.Assume("RAKP Message 1 carries no inner payload in the specification, so it is round-tripped alone")
}
