package checks

import (
	"bytes"
	"encoding/hex"
	"encoding/json"
	"fmt"
	"strings"
	"verif/env"

	"github.com/gebn/bmc"
	"github.com/gebn/bmc/pkg/ipmi"

	"verif/ref"
	"verif/rep"
)

// C01: session establishment agrees on keys with every conforming BMC.

func init() {
	register(&Check{ID: "C01", Run: runC01, Shards: 16, MinOutcomes: 2})
	Replayers["c01multi"] = func(raw json.RawMessage) (string, bool) {
		var c c01MultiCase
		json.Unmarshal(raw, &c)
		key, msg := c01Multi(c)
		return fmt.Sprintf("%+v: %s %s", c, key, msg), key != ""
	}
	Replayers["c01"] = func(raw json.RawMessage) (string, bool) {
		var c c01Case
		json.Unmarshal(raw, &c)
		key, msg := c01One(c, nil)
		return fmt.Sprintf("%+v: %s %s", c, key, msg), key != ""
	}
}

type c01Case struct {
	Suite    ref.Suite `json:"suite"`
	Discover int       `json:"discover"` // 0: single suite; 1: default list, BMC advertises this suite (3 or 17 only)
	ULen     int       `json:"ulen"`
	PLen     int       `json:"plen"`
	KG       bool      `json:"kg"`
	Priv     int       `json:"priv"`
	Lookup   bool      `json:"lookup"`
	BMCPat   int       `json:"bmcpat"` // randoms/GUID pattern 0..3
	SIDSel   int       `json:"sidsel"` // 0..3
	// Reuse: the caller first opens (and closes) a session to another BMC with
	// the same options value, differing only in the password; the library
	// documents that it does not modify the options
	Reuse bool `json:"reuse,omitempty"`
	// Secret selects the byte content of password and KG (0: counting pattern);
	// UName that of the user name. The BMC knows exactly these values.
	Secret int `json:"secret,omitempty"`
	UName  int `json:"uname,omitempty"`
	// DiscPad: with Discover=1, the advertised record data is brought to exactly
	// this many bytes (0: as it comes) by filler records before the suite's own
	DiscPad int `json:"discpad,omitempty"`
}

// c01Content returns n bytes of the given content kind.
func c01Content(n int, base byte, kind int) []byte {
	b := pattern(n, base, 1)
	if n == 0 {
		return b
	}
	switch kind {
	case 1: // leading zero byte
		b[0] = 0
	case 2: // zero byte in the middle
		b[n/2] = 0
	case 3: // all zero
		for i := range b {
			b[i] = 0
		}
	case 4: // top bit set everywhere
		for i := range b {
			b[i] = 0x80 + byte(i*7)
		}
	case 5: // white space at both ends
		b[0], b[n-1] = ' ', '\n'
	case 6: // trailing zero byte before a non-zero one is impossible; zero then non-zero at the end
		if n >= 2 {
			b[n-2] = 0
		}
	case 7: // all 0xFF
		for i := range b {
			b[i] = 0xFF
		}
	}
	return b
}

const c01Contents = 8

var c01SIDs = []uint32{1, 0x11223344, 0xFFFFFFFF, 0x00000100}

func c01Pattern(sel int, salt byte) (a [16]byte) {
	switch sel {
	case 0: // all zero
	case 1:
		for i := range a {
			a[i] = 0xFF
		}
	case 2:
		for i := range a {
			a[i] = byte(i) + salt
		}
	default:
		for i := range a {
			a[i] = byte(i*i*7) ^ salt ^ 0x5A
		}
	}
	return
}

func isNoneSuite(s ref.Suite) bool { return s.Integ == 0 || s.Conf == 0 }

// c01One runs one configuration; returns a violation key and message ("" = ok).
func c01One(c c01Case, r *rep.R) (string, string) {
	cfg := defaultConfig()
	cfg.Password = c01Content(c.PLen, 0x61, c.Secret)
	var kg []byte
	if c.KG {
		kg = c01Content(20, 0xD0, c.Secret)
		cfg.KG = kg
	}
	cfg.Username = c01Content(c.ULen, 0x41, c.UName)
	cfg.CheckUser = true
	cfg.RC = c01Pattern(c.BMCPat, 0x11)
	cfg.GUID = c01Pattern(c.BMCPat, 0x77)
	cfg.SIDC = c01SIDs[c.SIDSel]
	if c.Discover == 1 {
		rec := csRec3
		if c.Suite.Auth == 3 {
			rec = csRec17
		}
		cfg.CipherSuiteData = csData(csRecOEM, rec)
		if c.DiscPad > 0 {
			// fillers: 3-byte records (no algorithms beyond authentication) and
			// 4-byte ones, chosen so that the total is exactly DiscPad
			var recs []ref.CSRecord
			own := len(rec.Encode())
			left := c.DiscPad - own
			id := byte(0x40)
			for left > 0 {
				f := ref.CSRecord{ID: id, Auth: 2}
				if left%3 != 0 && left >= 4 {
					f.Integs = []byte{2}
				}
				if n := len(f.Encode()); n > left {
					break
				} else {
					left -= n
				}
				recs = append(recs, f)
				id++
			}
			cfg.CipherSuiteData = csData(append(recs, rec)...)
		}
	}
	w := newWorld(cfg, nil, nil)
	opts := &bmc.V2SessionOpts{
		SessionOpts: bmc.SessionOpts{
			Username:          string(cfg.Username),
			Password:          cfg.Password,
			MaxPrivilegeLevel: ipmi.PrivilegeLevel(c.Priv),
		},
		PrivilegeLevelLookup: c.Lookup,
		KG:                   kg,
	}
	if c.Discover == 0 {
		opts.CipherSuites = []ipmi.CipherSuite{suiteOf(c.Suite)}
	}
	// credentials as an application often holds them: user name, password and
	// KG cut out of one buffer ("user:password:KG" read from a file), so every
	// slice has the rest of the buffer as spare capacity behind it
	var credBuf, credCopy []byte
	if (c.ULen+c.PLen+c.Priv)%2 == 0 {
		credBuf = append(append(append(append(append([]byte{}, cfg.Username...), ':'), cfg.Password...), ':'), kg...)
		credBuf = append(credBuf, []byte(":trailer-the-caller-still-needs")...)
		credCopy = append([]byte{}, credBuf...)
		pw := credBuf[len(cfg.Username)+1 : len(cfg.Username)+1+len(cfg.Password)]
		opts.Password = pw
		if kg != nil {
			opts.KG = credBuf[len(cfg.Username)+2+len(cfg.Password) : len(cfg.Username)+2+len(cfg.Password)+len(kg)]
		}
	}
	if c.Reuse {
		cfg0 := defaultConfig()
		cfg0.Password = pattern(c.PLen+1, 0x51, 1)[:min(20, c.PLen+1)]
		cfg0.KG = cfg.KG
		w0 := newWorld(cfg0, nil, nil)
		opts.Password = cfg0.Password
		if s0, err := w0.Conn.NewV2Session(w0.Ctx, opts); err == nil {
			s0.Close(w0.Ctx)
		}
		opts.Password = cfg.Password
		w = newWorld(cfg, nil, nil)
	}
	none := isNoneSuite(c.Suite)
	var sess *bmc.V2Session
	var err error
	var dev *ipmi.GetDeviceIDRsp
	var chs *ipmi.GetChassisStatusRsp
	var devErr, chsErr, closeErr, lunErr error
	p := guard(func() {
		if c.Discover == 1 && !c.KG && c.Lookup == false && c.DiscPad%2 == 1 {
			// the version-agnostic entry point: no KG, default suites, name-only lookup
			var s bmc.Session
			s, err = w.Conn.NewSession(w.Ctx, &opts.SessionOpts)
			if err == nil {
				sess = s.(*bmc.V2Session)
			}
		} else {
			sess, err = w.Conn.NewV2Session(w.Ctx, opts)
		}
		if err != nil {
			return
		}
		dev, devErr = sess.GetDeviceID(w.Ctx)
		// describing the session (it derives K1/K2 again for the summary) between
		// two commands must leave it as it was
		if d := sess.String(); !strings.Contains(d, hex.EncodeToString(sess.SIK)) || sess.Version() != "2.0" || sess.ID() != sess.LocalID {
			lunErr = fmt.Errorf("session summary %q / version %q / ID %#x do not describe the session (local ID %#x)", d, sess.Version(), sess.ID(), sess.LocalID)
		}
		chs, chsErr = sess.GetChassisStatus(w.Ctx)
		// a command addressed to another logical unit of the BMC
		lun := ipmi.LUN(1 + (c.ULen+c.PLen+c.Priv)%3)
		rd := &ipmi.GetSensorReadingCmd{Req: ipmi.GetSensorReadingReq{Number: 2}, OwnerLUN: lun}
		if lunErr != nil {
		} else if err := bmc.ValidateResponse(sess.SendCommand(w.Ctx, rd)); err != nil {
			lunErr = fmt.Errorf("Get Sensor Reading to LUN %d: %v", lun, err)
		} else if rd.Rsp.Reading != cfg.Sensors[2][0] {
			lunErr = fmt.Errorf("Get Sensor Reading to LUN %d returned %#02x, the BMC sent %#02x", lun, rd.Rsp.Reading, cfg.Sensors[2][0])
		}
		if c.Priv == 5 && lunErr == nil {
			// the session goes on for a while (6-bit and 8-bit fields wrap)
			for i := 0; i < 270 && lunErr == nil; i++ {
				if d, err := sess.GetDeviceID(w.Ctx); err != nil || d.ID != cfg.DeviceID[0] {
					lunErr = fmt.Errorf("command %d on the session: %v %+v", i+4, err, d)
				}
			}
		}
		closeErr = sess.Close(w.Ctx)
	})
	cls := "std"
	if none {
		cls = "none-suite"
	}
	if p != "" {
		return "C01/" + cls + "/panic/" + siteKey(p), "panic: " + p
	}
	if credBuf != nil && !bytes.Equal(credBuf, credCopy) {
		return "C01/" + cls + "/callers-credential-buffer-modified", fmt.Sprintf("the buffer the password and KG were sliced from was modified: before %q, after %q", credCopy, credBuf)
	}
	if err != nil {
		if none {
			if r != nil {
				r.Outcome("none-suite:refused-with-error")
			}
			return "", ""
		}
		return "C01/std/handshake-failed", fmt.Sprintf("NewV2Session failed against a conforming BMC: %v; BMC saw: %v", err, problemsOf(w.BMC))
	}
	bs := w.BMC.Sessions[cfg.SIDC]
	if bs == nil || !bs.Active {
		return "C01/" + cls + "/session-without-bmc-session", "library returned a session but the BMC has no active session"
	}
	k1, k2 := sess.K(1), sess.K(2)
	if !bytes.Equal(sess.SIK, bs.SIK) || !bytes.Equal(k1, bs.K1) || !bytes.Equal(k2, bs.K2) {
		return "C01/" + cls + "/key-mismatch", fmt.Sprintf("keys differ: SIK %x vs BMC %x; K1 %x vs %x; K2 %x vs %x", sess.SIK, bs.SIK, k1, bs.K1, k2, bs.K2)
	}
	if sess.RemoteID != cfg.SIDC || sess.LocalID != bs.HS.SIDM {
		return "C01/" + cls + "/session-ids", fmt.Sprintf("session IDs local %#x remote %#x, BMC has console %#x bmc %#x", sess.LocalID, sess.RemoteID, bs.HS.SIDM, cfg.SIDC)
	}
	if got := (ref.Suite{Auth: byte(sess.AuthenticationAlgorithm), Integ: byte(sess.IntegrityAlgorithm), Conf: byte(sess.ConfidentialityAlgorithm)}); got != c.Suite {
		return "C01/" + cls + "/algorithms", fmt.Sprintf("session reports algorithms %v, negotiated %v", got, c.Suite)
	}
	probs := problemsOf(w.BMC)
	if none {
		// Leniency (DESIGN 4/C01): with integrity None the flags the library
		// sets are not judged.
		var kept []string
		for _, p := range probs {
			if strings.Contains(p, "authenticated flag") || strings.Contains(p, "encrypted flag") {
				continue
			}
			kept = append(kept, p)
		}
		probs = kept
	}
	if len(probs) > 0 {
		return "C01/" + cls + "/bmc-rejects-datagram", "BMC found non-conforming datagrams: " + strings.Join(probs, "; ")
	}
	if devErr != nil || chsErr != nil || closeErr != nil || lunErr != nil {
		return "C01/" + cls + "/command-failed", fmt.Sprintf("in-session commands failed: GetDeviceID=%v GetChassisStatus=%v %v Close=%v", devErr, chsErr, lunErr, closeErr)
	}
	if dev.ID != cfg.DeviceID[0] || dev.Product != uint16(cfg.DeviceID[9])|uint16(cfg.DeviceID[10])<<8 || chs.PoweredOn != (cfg.Chassis[0]&1 != 0) || chs.PowerRestorePolicy != ipmi.PowerRestorePolicy(cfg.Chassis[0]>>5&3) {
		return "C01/" + cls + "/response-not-returned", fmt.Sprintf("responses differ from what the BMC sent: %+v %+v", dev, chs)
	}
	if !bs.Closed {
		return "C01/" + cls + "/close", "Close returned nil but the BMC did not see a valid Close Session for its session ID"
	}
	// 4 handshake datagrams (+ discovery) + 3 commands must have arrived
	if r != nil {
		if none {
			r.Outcome("none-suite:session-works")
		} else {
			r.Outcome("std:session-works")
		}
	}
	return "", ""
}

// c01MultiCase: several sessions on one connection.
type c01MultiCase struct {
	Suites []ref.Suite `json:"suites"`
	// Mode 0: each session is closed before the next is opened; 1: all are
	// opened first, used alternately, then closed in opening order; 2: as 1 but
	// closed in reverse order with commands on the survivors in between; 3: as
	// 0, but the reply to a command is lost twice along the way
	Mode int  `json:"mode"`
	KG   bool `json:"kg"`
}

func c01Multi(c c01MultiCase) (string, string) {
	cfg := defaultConfig()
	cfg.DistinctSIDs = true
	cfg.Password = pattern(9, 0x61, 1)
	var kg []byte
	if c.KG {
		kg = pattern(20, 0xD0, 1)
		cfg.KG = kg
	}
	w := newWorld(cfg, nil, nil)
	type st struct {
		s   *bmc.V2Session
		sid uint32
	}
	var open []*st
	var key, msg string
	fail := func(k, m string, a ...any) {
		if key == "" {
			key, msg = k, fmt.Sprintf("sessions %v mode %d: ", c.Suites, c.Mode)+fmt.Sprintf(m, a...)
		}
	}
	next := cfg.SIDC
	openOne := func(i int) *st {
		opts := &bmc.V2SessionOpts{SessionOpts: bmc.SessionOpts{Username: "multi", Password: cfg.Password, MaxPrivilegeLevel: ipmi.PrivilegeLevelAdministrator}, KG: kg, CipherSuites: []ipmi.CipherSuite{suiteOf(c.Suites[i])}}
		s, err := w.Conn.NewV2Session(w.Ctx, opts)
		sid := next
		next++
		if err != nil {
			fail("C01/multi/handshake-failed", "opening session %d (suite %v) on a connection that has opened %d before failed against a conforming BMC: %v; BMC saw: %v", i+1, c.Suites[i], i, err, problemsOf(w.BMC))
			return nil
		}
		bs := w.BMC.Sessions[sid]
		if bs == nil || !bs.Active {
			fail("C01/multi/session-without-bmc-session", "session %d returned but the BMC has no active session %#x", i+1, sid)
			return nil
		}
		if !bytes.Equal(s.SIK, bs.SIK) || !bytes.Equal(s.K(1), bs.K1) || !bytes.Equal(s.K(2), bs.K2) {
			fail("C01/multi/key-mismatch", "session %d: keys differ from the BMC's", i+1)
		}
		if s.RemoteID != sid || s.LocalID != bs.HS.SIDM {
			fail("C01/multi/session-ids", "session %d: IDs local %#x remote %#x, BMC has console %#x bmc %#x", i+1, s.LocalID, s.RemoteID, bs.HS.SIDM, sid)
		}
		return &st{s, sid}
	}
	use := func(x *st, n int) {
		if x == nil {
			return
		}
		dev, err := x.s.GetDeviceID(w.Ctx)
		if err != nil || dev.ID != cfg.DeviceID[0] {
			fail("C01/multi/command-failed", "Get Device ID on session %#x (use %d): %v %+v", x.sid, n, err, dev)
		}
		chs, err := x.s.GetChassisStatus(w.Ctx)
		if err != nil || chs.PoweredOn != (cfg.Chassis[0]&1 != 0) {
			fail("C01/multi/command-failed", "Get Chassis Status on session %#x (use %d): %v %+v", x.sid, n, err, chs)
		}
	}
	closeOne := func(x *st) {
		if x == nil {
			return
		}
		if err := x.s.Close(w.Ctx); err != nil {
			fail("C01/multi/close", "closing session %#x: %v", x.sid, err)
		} else if !w.BMC.Sessions[x.sid].Closed {
			fail("C01/multi/close", "Close returned nil but the BMC did not see a valid Close Session for %#x", x.sid)
		}
	}
	// Lose: how many consecutive replies go missing in mode 3
	lose := 0
	w.T.Menu = func(t *env.Transport, req []byte) []env.Answer {
		if lose > 0 {
			lose--
			return []env.Answer{env.LostReply()}
		}
		return []env.Answer{env.Honest()}
	}
	p := guard(func() {
		switch c.Mode {
		case 0:
			for i := range c.Suites {
				x := openOne(i)
				use(x, 0)
				closeOne(x)
			}
		case 3:
			// the reply to one command is lost (the command fails, as documented for
			// a transport failure inside a session); every command sent on the
			// session afterwards must still pass the BMC's checks and be answered
			for i := range c.Suites {
				x := openOne(i)
				use(x, 0)
				if x != nil {
					for n := 1; n <= 2; n++ {
						lose = 1
						x.s.GetDeviceID(w.Ctx)
						lose = 0
						use(x, n)
					}
				}
				closeOne(x)
			}
		default:
			for i := range c.Suites {
				open = append(open, openOne(i))
				use(open[i], 0)
			}
			for n := 1; n <= 2; n++ {
				for _, x := range open {
					use(x, n)
				}
			}
			if c.Mode == 1 {
				for _, x := range open {
					closeOne(x)
				}
			} else {
				for i := len(open) - 1; i >= 0; i-- {
					closeOne(open[i])
					for _, x := range open[:i] {
						use(x, 3)
					}
				}
			}
		}
	})
	if p != "" {
		return "C01/multi/panic/" + siteKey(p), "panic: " + p
	}
	if key != "" {
		return key, msg
	}
	if probs := problemsOf(w.BMC); len(probs) > 0 {
		return "C01/multi/bmc-rejects-datagram", fmt.Sprintf("sessions %v mode %d: BMC found non-conforming datagrams: %s", c.Suites, c.Mode, strings.Join(probs, "; "))
	}
	return "", ""
}

func runC01(r *rep.R) {
	r.SetRule("a case is one (suite, discovery mode, username length, password length, KG, privilege, lookup mode, BMC random/GUID pattern, BMC session ID) configuration; the real NewV2Session + GetDeviceID + GetChassisStatus + Close run against the independent reference BMC with default (conforming) answers; all cases are non-trivial (each runs a full handshake) and distinct by construction")
	var suites []ref.Suite
	for _, a := range []byte{1, 2, 3} {
		for _, i := range []byte{1, 2, 4} {
			suites = append(suites, ref.Suite{Auth: a, Integ: i, Conf: 1})
		}
	}
	noneSuites := []ref.Suite{{1, 0, 0}, {1, 1, 0}, {1, 0, 1}, {3, 4, 0}, {2, 0, 0}, {3, 0, 1}}
	var idx int64
	do := func(c c01Case) {
		idx++
		if !r.Mine(idx) {
			return
		}
		key, msg := c01One(c, r)
		r.Eval(rep.H(fmt.Sprintf("%+v", c)), true)
		r.Trace()
		if r.WantSample() {
			r.Sample(c)
		}
		if key != "" {
			r.Violate(key, msg, "c01", c, func() bool { k, _ := c01One(c, nil); return k == key })
			r.Outcome("violation:" + key)
		}
	}
	ulens, plens := []int{0, 1, 15, 16}, []int{0, 1, 16, 19, 20}
	full := thorough(r)
	all := append(append([]ref.Suite{}, suites...), noneSuites...)
	for _, s := range all {
		if full {
			for ul := 0; ul <= 16; ul++ {
				for pl := 0; pl <= 20; pl++ {
					for _, kg := range []bool{false, true} {
						for priv := 0; priv <= 5; priv++ {
							for _, lk := range []bool{false, true} {
								// BMC alphabet: all 4x4 for boundary user/password lengths, diagonal otherwise
								for pat := 0; pat < 4; pat++ {
									for sid := 0; sid < 4; sid++ {
										// full 4x4 BMC alphabet for the nine must-succeed suites; diagonal
										// (plus all 16 at boundary lengths) for the None suites
										boundary := (ul == 0 || ul == 16) && (pl == 0 || pl == 20)
										if isNoneSuite(s) && !boundary && pat != sid {
											continue
										}
										do(c01Case{Suite: s, ULen: ul, PLen: pl, KG: kg, Priv: priv, Lookup: lk, BMCPat: pat, SIDSel: sid})
									}
								}
							}
						}
					}
				}
			}
			continue
		}
		// quick: each axis complete against boundary values of the others
		base := c01Case{Suite: s, ULen: 5, PLen: 8, Priv: 4, BMCPat: 2, SIDSel: 1}
		for ul := 0; ul <= 16; ul++ {
			for _, pl := range plens {
				for _, kg := range []bool{false, true} {
					c := base
					c.ULen, c.PLen, c.KG = ul, pl, kg
					do(c)
				}
			}
		}
		for pl := 0; pl <= 20; pl++ {
			for _, ul := range ulens {
				for _, lk := range []bool{false, true} {
					c := base
					c.ULen, c.PLen, c.Lookup = ul, pl, lk
					do(c)
				}
			}
		}
		for priv := 0; priv <= 5; priv++ {
			for _, lk := range []bool{false, true} {
				for _, kg := range []bool{false, true} {
					for _, ul := range ulens {
						c := base
						c.Priv, c.Lookup, c.KG, c.ULen = priv, lk, kg, ul
						do(c)
					}
				}
			}
		}
		for pat := 0; pat < 4; pat++ {
			for sid := 0; sid < 4; sid++ {
				for _, kg := range []bool{false, true} {
					c := base
					c.BMCPat, c.SIDSel, c.KG = pat, sid, kg
					do(c)
				}
			}
		}
	}
	// byte contents of the secrets and of the user name: zero bytes at the
	// start, in the middle and near the end, all zero, all ones, top bits set,
	// white space at the ends
	for _, s := range suites {
		for secret := 0; secret < c01Contents; secret++ {
			for uname := 0; uname < c01Contents; uname++ {
				if uname == 1 || uname == 2 || uname == 3 || uname == 6 {
					continue // user names are text: no NUL bytes
				}
				if !full && secret != 0 && uname != 0 && secret != uname {
					continue
				}
				for _, kg := range []bool{false, true} {
					for _, l := range [][2]int{{16, 20}, {5, 8}, {1, 1}, {2, 3}} {
						do(c01Case{Suite: s, ULen: l[0], PLen: l[1], KG: kg, Priv: 4, Lookup: secret%2 == 0, BMCPat: 2, SIDSel: 1, Secret: secret, UName: uname})
					}
				}
			}
		}
	}
	// several sessions on one connection: every ordered pair of suites, closed
	// before re-opening or held open together; triples on a diagonal
	doMulti := func(c c01MultiCase) {
		idx++
		if !r.Mine(idx) {
			return
		}
		key, msg := c01Multi(c)
		r.Eval(rep.H(fmt.Sprintf("multi %+v", c)), true)
		r.Trace()
		if key != "" {
			r.Violate(key, msg, "c01multi", c, func() bool { k, _ := c01Multi(c); return k == key })
			r.Outcome("violation:" + key)
		} else {
			r.Outcome("std:several-sessions-on-one-connection-work")
		}
	}
	for i, s1 := range suites {
		doMulti(c01MultiCase{Suites: []ref.Suite{s1}, Mode: 3, KG: i%2 == 1})
		doMulti(c01MultiCase{Suites: []ref.Suite{s1, suites[(i+1)%len(suites)]}, Mode: 3, KG: i%2 == 0})
	}
	for mode := 0; mode < 3; mode++ {
		for i, s1 := range suites {
			for j, s2 := range suites {
				doMulti(c01MultiCase{Suites: []ref.Suite{s1, s2}, Mode: mode, KG: (i+j)%2 == 1})
				if full || i == j || (i+1)%len(suites) == j {
					doMulti(c01MultiCase{Suites: []ref.Suite{s1, s2, suites[(i+j+1)%len(suites)]}, Mode: mode, KG: (i+j)%2 == 0})
				}
			}
		}
	}
	// the same options value used for two BMCs with different passwords
	for _, s := range suites {
		for _, kg := range []bool{false, true} {
			for _, pl := range []int{0, 7, 19} {
				for _, lk := range []bool{false, true} {
					do(c01Case{Suite: s, ULen: 4, PLen: pl, KG: kg, Priv: 3, Lookup: lk, BMCPat: 3, SIDSel: 1, Reuse: true})
				}
			}
		}
	}
	// default-suite path through discovery: suites 17 and 3
	for _, s := range []ref.Suite{{3, 4, 1}, {1, 1, 1}} {
		for ul := 0; ul <= 16; ul += 4 {
			for _, kg := range []bool{false, true} {
				for priv := 0; priv <= 5; priv++ {
					do(c01Case{Suite: s, Discover: 1, ULen: ul, PLen: 20 - ul, KG: kg, Priv: priv, Lookup: priv%2 == 0, BMCPat: priv % 4, SIDSel: ul / 4 % 4})
				}
			}
		}
	}
	// discovery against record data of every total length around the chunk
	// boundaries (the last chunk full, empty, or one byte long)
	for _, s := range []ref.Suite{{3, 4, 1}, {1, 1, 1}} {
		for _, n := range []int{15, 16, 17, 31, 32, 33, 47, 48, 49, 64, 79, 80, 81, 96} {
			do(c01Case{Suite: s, Discover: 1, ULen: 5, PLen: 8, Priv: 4, BMCPat: 2, SIDSel: 1, DiscPad: n})
		}
	}
	r.Bound("suites", len(all))
	if full {
		r.Bound("product", "suite x ulen 0..16 x plen 0..20 x KG x priv 0..5 x lookup x all 16 BMC (random/GUID pattern, session ID) choices for the nine must-succeed suites; None suites: 16 at boundary lengths, 4 diagonal elsewhere")
	} else {
		r.Bound("product", "each axis complete against boundary sets of the others (quick)")
	}
	r.Assume("username/password/KG byte values: a counting pattern on the length axes; eight content kinds (zero bytes at the start / middle / near the end, all zero, all ones, top bits set, white space at the ends) at four length pairs")
	r.Assume("for suites with integrity None the library's authenticated/encrypted flags are not judged (specification silent); refusal with an error is equally accepted for None suites")
	r.Assume("BMC randoms/GUID over 4 patterns and session IDs over {1 (= console's), 0x11223344, 0xFFFFFFFF, 0x100}")
}
