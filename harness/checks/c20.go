package checks

import (
	"encoding/json"
	"fmt"
	"math"
	"strings"
	"time"

	"github.com/gebn/bmc/pkg/dcmi"
	"github.com/gebn/bmc/pkg/ipmi"
	"github.com/google/gopacket"

	"verif/rep"
)

// C20: primitive value conversions on their whole domains, through exported
// API only (internal packages cannot be imported from outside the module).

func init() {
	register(&Check{ID: "C20", Run: runC20, Shards: 8, MinOutcomes: 8})
	Replayers["c20"] = func(raw json.RawMessage) (string, bool) {
		var c c20Case
		json.Unmarshal(raw, &c)
		var msg string
		if p := guard(func() { msg = c20One(c) }); p != "" {
			msg = "panic: " + p
		}
		return fmt.Sprintf("%+v: %s", c, msg), msg != ""
	}
}

type c20Case struct {
	Prim string `json:"prim"`
	A    int64  `json:"a"`
	B    int64  `json:"b"`
	C    int64  `json:"c"`
	D    int64  `json:"d"`
}

var sopts = gopacket.SerializeOptions{FixLengths: true, ComputeChecksums: true}

// fsrBase is a minimal valid 43+2 byte Full Sensor Record body (after the
// 5-byte SDR header) with an empty 6-bit ID string.
func fsrBase() []byte {
	d := make([]byte, 45)
	d[42] = 0x80 // packed 6-bit, 0 characters
	return d
}

func c20One(c c20Case) string {
	switch c.Prim {
	case "bcd":
		b := byte(c.A)
		d := make([]byte, 11)
		d[3] = b
		var g ipmi.GetDeviceIDRsp
		if err := g.DecodeFromBytes(d, gopacket.NilDecodeFeedback); err != nil {
			return "decode error: " + err.Error()
		}
		hi, lo := b>>4, b&0xf
		if hi > 9 || lo > 9 {
			return "" // not a BCD byte: definition silent
		}
		if want := hi*10 + lo; g.MinorFirmwareRevision != want {
			return fmt.Sprintf("BCD %#02x decoded as %d, want %d", b, g.MinorFirmwareRevision, want)
		}
	case "bcdver": // SDR / repository version byte: low nibble major, high nibble minor
		b := byte(c.A)
		hi, lo := b>>4, b&0xf
		var s ipmi.SDR
		if err := s.DecodeFromBytes([]byte{0, 0, b, 1, 0}, gopacket.NilDecodeFeedback); err != nil {
			return "decode error: " + err.Error()
		}
		d := make([]byte, 14)
		d[0] = b
		var g ipmi.GetSDRRepositoryInfoRsp
		if err := g.DecodeFromBytes(d, gopacket.NilDecodeFeedback); err != nil {
			return "decode error: " + err.Error()
		}
		if hi > 9 || lo > 9 {
			return ""
		}
		if want := lo*10 + hi; s.Version != want || g.Version != want {
			return fmt.Sprintf("version byte %#02x decoded as SDR %d / repo info %d, want %d", b, s.Version, g.Version, want)
		}
	case "analog":
		f, b := ipmi.AnalogDataFormat(c.A), byte(c.B)
		p, err := f.Parser()
		if f > 2 {
			if err == nil {
				return fmt.Sprintf("analog data format %d has a parser", f)
			}
			return ""
		}
		if err != nil {
			return "no parser: " + err.Error()
		}
		var want int16
		switch f {
		case 0:
			want = int16(b)
		case 1: // one's complement: negative values are the bitwise inverse
			if b&0x80 != 0 {
				want = -int16(^b)
			} else {
				want = int16(b)
			}
		case 2:
			if b&0x80 != 0 {
				want = int16(b) - 256
			} else {
				want = int16(b)
			}
		}
		if got := p.Parse(b); got != want {
			return fmt.Sprintf("format %d raw %#02x parsed as %d, want %d", f, b, got, want)
		}
	case "twos10": // field: 0=M 1=B 2=Accuracy; A=field, B=10-bit pattern, C=other bits fill
		v := uint16(c.B)
		fill := byte(c.C)
		d := fsrBase()
		for i := 19; i <= 24; i++ {
			d[i] = fill
		}
		set := func(ls *byte, ms *byte, v uint16) { // ls 8 bits + top 2 bits of ms
			*ls = byte(v)
			*ms = (*ms & 0x3f) | byte(v>>8)<<6
		}
		switch c.A {
		case 0:
			set(&d[19], &d[20], v)
		case 1:
			set(&d[21], &d[22], v)
		case 2: // accuracy: ls 6 bits in d[22][5:0], ms 4 bits in d[23][7:4]
			d[22] = (d[22] & 0xc0) | byte(v&0x3f)
			d[23] = (d[23] & 0x0f) | byte(v>>6)<<4
		}
		var r ipmi.FullSensorRecord
		if err := r.DecodeFromBytes(d, gopacket.NilDecodeFeedback); err != nil {
			return "decode error: " + err.Error()
		}
		want := int16(v)
		if v&0x200 != 0 {
			want = int16(v) - 1024
		}
		got := [...]int16{r.M, r.B, r.Accuracy}[c.A]
		if got != want {
			return fmt.Sprintf("10-bit field %d pattern %#03x (fill %#02x) decoded as %d, want %d", c.A, v, fill, got, want)
		}
	case "twos4": // A: 0=RExp 1=BExp, B=nibble, C=other nibble
		d := fsrBase()
		n, o := byte(c.B), byte(c.C)
		if c.A == 0 {
			d[24] = n<<4 | o
		} else {
			d[24] = o<<4 | n
		}
		var r ipmi.FullSensorRecord
		if err := r.DecodeFromBytes(d, gopacket.NilDecodeFeedback); err != nil {
			return "decode error: " + err.Error()
		}
		want := int8(n)
		if n&8 != 0 {
			want = int8(n) - 16
		}
		got := r.RExp
		if c.A == 1 {
			got = r.BExp
		}
		if got != want {
			return fmt.Sprintf("4-bit exponent %d nibble %#x decoded as %d, want %d", c.A, n, got, want)
		}
	case "cksum": // A=position in header (0..5), B=value, C=body length, D=body fill
		return c20Checksum(int(c.A), byte(c.B), int(c.C), byte(c.D))
	case "bcdplus": // A=len, B=pos, C=nibble, D=fill byte
		return c20String(ipmi.StringEncodingBCDPlus, int(c.A), int(c.B), byte(c.C), byte(c.D))
	case "sixbit":
		return c20String(ipmi.StringEncodingPacked6BitAscii, int(c.A), int(c.B), byte(c.C), byte(c.D))
	case "latin1":
		return c20String(ipmi.StringEncoding8BitAsciiLatin1, int(c.A), int(c.B), byte(c.C), byte(c.D))
	case "unicode":
		return c20String(ipmi.StringEncodingUnicode, int(c.A), int(c.B), byte(c.C), byte(c.D))
	case "latin1seq": // A = number of bytes (2..4), B = the bytes packed big-endian, C = leading ASCII bytes, D = trailing ASCII bytes
		var raw []byte
		for i := int(c.A) - 1; i >= 0; i-- {
			raw = append(raw, byte(c.B>>(8*uint(i))))
		}
		data := append(append(pattern(int(c.C), 'a', 1), raw...), pattern(int(c.D), 'x', 1)...)
		var want []rune
		for _, b := range data {
			want = append(want, rune(b))
		}
		dec, err := ipmi.StringEncoding8BitAsciiLatin1.Decoder()
		if err != nil {
			return err.Error()
		}
		got, consumed, err := dec.Decode(append(append([]byte{}, data...), 0xA5, 0x5A), len(data))
		if err != nil || got != string(want) || consumed != len(data) {
			return fmt.Sprintf("8-bit ASCII + Latin-1: decode(% x) = (%q, %d, %v), want (%q, %d)", data, got, consumed, err, string(want), len(data))
		}
	case "ravg_b2d":
		b := byte(c.A)
		data := []byte{1, 5, 2, 1, b}
		var g dcmi.GetDCMICapabilitiesInfoEnhancedSystemPowerStatisticsAttrsRsp
		if err := g.DecodeFromBytes(data, gopacket.NilDecodeFeedback); err != nil {
			return "decode error: " + err.Error()
		}
		if len(g.PowerRollingAvgTimePeriods) != 1 {
			return fmt.Sprintf("got %d periods, want 1", len(g.PowerRollingAvgTimePeriods))
		}
		unit := [...]time.Duration{time.Second, time.Minute, time.Hour, 24 * time.Hour}[b>>6]
		want := time.Duration(b&0x3f) * unit
		if got := g.PowerRollingAvgTimePeriods[0]; got != want {
			return fmt.Sprintf("period byte %#02x decoded as %v, want %v", b, got, want)
		}
	case "ravg_d2b":
		secs := c.A
		d := time.Duration(secs) * time.Second
		got, err := ravgByte(d)
		if err != nil {
			return err.Error()
		}
		// canonical form: largest unit with value >= 1, truncating, saturating at 63 days
		var want byte
		switch {
		case secs < 60:
			want = byte(secs)
		case secs < 3600:
			want = 0x40 | byte(secs/60)
		case secs < 86400:
			want = 0x80 | byte(secs/3600)
		default:
			days := secs / 86400
			if days > 63 {
				days = 63
			}
			want = 0xc0 | byte(days)
		}
		if got != want {
			return fmt.Sprintf("duration %v encoded as %#02x, want %#02x", d, got, want)
		}
	case "entity":
		i := ipmi.EntityInstance(c.A)
		wantSys, wantDev := c.A <= 0x5f, c.A >= 0x60 && c.A <= 0x7f
		if i.IsSystemRelative() != wantSys || i.IsDeviceRelative() != wantDev {
			return fmt.Sprintf("entity instance %#02x: system-relative=%v device-relative=%v, want %v/%v", c.A, i.IsSystemRelative(), i.IsDeviceRelative(), wantSys, wantDev)
		}
		// the rendering of the split: the number within its range and the range's name
		if c.A <= 0x7f {
			str := i.String()
			num, word := fmt.Sprint(c.A), "ystem"
			if wantDev {
				num, word = fmt.Sprint(c.A-0x60), "evice"
			}
			if !strings.HasPrefix(str, num) || !strings.Contains(str, word) {
				return fmt.Sprintf("entity instance %#02x renders as %q, want number %s of the %s-relative range", c.A, str, num, map[bool]string{true: "device", false: "system"}[wantDev])
			}
		}
		// the split as it arrives from the wire: bit 7 is the container flag
		d := fsrBase()
		d[4] = byte(c.A)
		var r ipmi.FullSensorRecord
		if err := r.DecodeFromBytes(d, gopacket.NilDecodeFeedback); err != nil {
			return "decode error: " + err.Error()
		}
		if r.Instance != ipmi.EntityInstance(c.A&0x7f) || r.IsContainerEntity != (c.A&0x80 != 0) {
			return fmt.Sprintf("entity instance byte %#02x decoded as instance %d container %v", c.A, r.Instance, r.IsContainerEntity)
		}
	default:
		return "unknown primitive " + c.Prim
	}
	return ""
}

func ravgByte(d time.Duration) (byte, error) {
	req := &dcmi.GetPowerReadingReq{Mode: dcmi.SystemPowerStatisticsModeEnhanced, Period: d}
	buf := gopacket.NewSerializeBuffer()
	if err := req.SerializeTo(buf, sopts); err != nil {
		return 0, err
	}
	b := buf.Bytes()
	if len(b) != 3 || b[0] != 2 || b[2] != 0 {
		return 0, fmt.Errorf("unexpected Get Power Reading request encoding % x", b)
	}
	return b[1], nil
}

func refChecksum(b []byte) byte {
	s := 0
	for _, x := range b {
		s += int(x)
	}
	return byte((256 - s%256) % 256)
}

func c20Checksum(pos int, val byte, bodyLen int, fill byte) string {
	m := &ipmi.Message{
		Operation:     ipmi.Operation{Function: ipmi.NetworkFunctionAppReq, Command: 0x38},
		RemoteAddress: 0x20, LocalAddress: 0x81, Sequence: 1,
	}
	switch pos {
	case 0:
		m.RemoteAddress = ipmi.Address(val)
	case 1: // netfn (even, non-special) and LUN
		nf := ipmi.NetworkFunction(val>>2) &^ 1
		if nf == ipmi.NetworkFunctionGroupReq || nf == ipmi.NetworkFunctionOEMReq {
			nf = ipmi.NetworkFunctionAppReq
		}
		m.Function = nf
		m.RemoteLUN = ipmi.LUN(val & 3)
	case 3:
		m.LocalAddress = ipmi.Address(val)
	case 4:
		m.Sequence = val >> 2
		m.LocalLUN = ipmi.LUN(val & 3)
	case 5:
		m.Command = ipmi.CommandNumber(val)
	}
	body := make([]byte, bodyLen)
	for i := range body {
		body[i] = fill + byte(i)*val
	}
	buf := gopacket.NewSerializeBuffer()
	if err := gopacket.SerializeLayers(buf, sopts, m, gopacket.Payload(body)); err != nil {
		return "serialise: " + err.Error()
	}
	w := buf.Bytes()
	if len(w) != 7+bodyLen {
		return fmt.Sprintf("message length %d, want %d", len(w), 7+bodyLen)
	}
	if w[2] != refChecksum(w[0:2]) {
		return fmt.Sprintf("checksum1 %#02x over % x, want %#02x", w[2], w[0:2], refChecksum(w[0:2]))
	}
	if w[len(w)-1] != refChecksum(w[3:len(w)-1]) {
		return fmt.Sprintf("checksum2 %#02x over % x, want %#02x", w[len(w)-1], w[3:len(w)-1], refChecksum(w[3:len(w)-1]))
	}
	// decode accepts exactly the right value of each checksum
	if pos == 0 && bodyLen%8 == 0 || pos == 5 && bodyLen <= 2 {
		for _, idx := range []int{2, len(w) - 1} {
			good := w[idx]
			acc := 0
			for v := 0; v < 256; v++ {
				w2 := append([]byte{}, w...)
				w2[idx] = byte(v)
				var d ipmi.Message
				if err := d.DecodeFromBytes(w2, gopacket.NilDecodeFeedback); err == nil {
					acc++
					if byte(v) != good {
						return fmt.Sprintf("message % x accepted with checksum byte at %d = %#02x, correct is %#02x", w2, idx, v, good)
					}
				}
			}
			if acc != 1 {
				return fmt.Sprintf("message % x: %d checksum values accepted at offset %d, want exactly 1", w, acc, idx)
			}
		}
	}
	return ""
}

var refBCDPlus = [16]rune{'0', '1', '2', '3', '4', '5', '6', '7', '8', '9', ' ', '-', '.', ':', ',', '_'}

// c20String puts code at character position pos of a c-character string whose
// other characters come from fill, encodes it independently and compares.
func c20String(enc ipmi.StringEncoding, c, pos int, code, fill byte) string {
	codes := make([]byte, c)
	for i := range codes {
		codes[i] = fill + byte(i)
	}
	if pos < c {
		codes[pos] = code
	}
	var data []byte
	var want []rune
	switch enc {
	case ipmi.StringEncodingBCDPlus:
		data = make([]byte, (c+1)/2)
		for i, v := range codes {
			v &= 0xf
			if i%2 == 0 {
				data[i/2] |= v << 4
			} else {
				data[i/2] |= v
			}
			want = append(want, refBCDPlus[v])
		}
	case ipmi.StringEncodingPacked6BitAscii:
		data = make([]byte, (c*6+7)/8)
		for i, v := range codes {
			v &= 0x3f
			bit := i * 6
			for k := 0; k < 6; k++ {
				if v&(1<<k) != 0 {
					data[(bit+k)/8] |= 1 << ((bit + k) % 8)
				}
			}
			want = append(want, rune(0x20+v))
		}
	default: // 8-bit ASCII + Latin-1 (and "unicode", which the library documents as decoded the same way)
		data = append(data, codes...)
		for _, v := range codes {
			want = append(want, rune(v))
		}
	}
	consumedWant := len(data)
	// trailing bytes must not matter
	data = append(data, 0xA5, 0x5A)
	dec, err := enc.Decoder()
	if err != nil {
		return "no decoder: " + err.Error()
	}
	got, consumed, err := dec.Decode(data, c)
	if err != nil {
		return fmt.Sprintf("decode(% x, %d): %v", data, c, err)
	}
	if got != string(want) || consumed != consumedWant {
		return fmt.Sprintf("encoding %d: decode(% x, %d) = (%q, %d), want (%q, %d)", enc, data, c, got, consumed, string(want), consumedWant)
	}
	// a string is a value: it stays what it was when the bytes it was decoded
	// from are overwritten (the library decodes out of a reused receive buffer)
	for i := range data {
		data[i] = ^data[i]
	}
	if got != string(want) {
		return fmt.Sprintf("encoding %d: the %d-character string decoded as %q reads %q after the input buffer was overwritten", enc, c, string(want), got)
	}
	for i := range data {
		data[i] = ^data[i]
	}
	// the same string as the ID string of a Full Sensor Record (the route by
	// which the library itself decodes ID strings)
	if c == 1 && (enc == ipmi.StringEncoding8BitAsciiLatin1 || enc == ipmi.StringEncodingUnicode) {
		return "" // a length of 1 is reserved for the byte-per-character types (43.15)
	}
	var fsr ipmi.FullSensorRecord
	body := fsrBody(byte(enc)<<6|byte(c), data[:consumedWant])
	if err := fsr.DecodeFromBytes(body, gopacket.NilDecodeFeedback); err != nil {
		return fmt.Sprintf("encoding %d: a Full Sensor Record with the %d-character ID string % x: %v", enc, c, data[:consumedWant], err)
	}
	if fsr.Identity != string(want) {
		return fmt.Sprintf("encoding %d: a Full Sensor Record with the %d-character ID string % x has Identity %q, want %q", enc, c, data[:consumedWant], fsr.Identity, string(want))
	}
	for i := range body {
		body[i] = ^body[i]
	}
	if fsr.Identity != string(want) {
		return fmt.Sprintf("encoding %d: the Identity %q of a Full Sensor Record reads %q after the buffer it was decoded from was overwritten", enc, string(want), fsr.Identity)
	}
	return ""
}

func runC20(r *rep.R) {
	r.SetRule("each primitive's whole domain is enumerated through exported API; a case is (primitive, input); non-trivial = the definition fixes the output (e.g. valid BCD nibbles); distinct = distinct (primitive,input) tuples")
	var idx int64
	do := func(c c20Case) {
		idx++
		if !r.Mine(idx) {
			return
		}
		var msg string
		if p := guard(func() { msg = c20One(c) }); p != "" {
			msg = "panic: " + p
		}
		r.Eval(rep.H(c.Prim, c.A, c.B, c.C, c.D), true)
		if idx%100003 == 1 {
			r.Sample(c)
		}
		if msg != "" {
			key := "C20/" + c.Prim
			if c.Prim == "latin1" && c.C >= 0x80 && int(c.B) < int(c.A) {
				key += "/byte>=0x80"
			}
			r.Violate(key, msg, "c20", c, nil)
			r.Outcome(c.Prim + ":violation")
		} else {
			r.Outcome(c.Prim + ":ok")
		}
	}
	for b := 0; b < 256; b++ {
		do(c20Case{Prim: "bcd", A: int64(b)})
		do(c20Case{Prim: "bcdver", A: int64(b)})
		do(c20Case{Prim: "ravg_b2d", A: int64(b)})
		do(c20Case{Prim: "entity", A: int64(b)})
		for f := 0; f < 4; f++ {
			do(c20Case{Prim: "analog", A: int64(f), B: int64(b)})
		}
	}
	for field := 0; field < 3; field++ {
		for v := 0; v < 1024; v++ {
			for _, fill := range []int64{0x00, 0xff, 0xaa, 0x55} {
				do(c20Case{Prim: "twos10", A: int64(field), B: int64(v), C: fill})
			}
		}
	}
	for which := 0; which < 2; which++ {
		for n := 0; n < 16; n++ {
			for o := 0; o < 16; o++ {
				do(c20Case{Prim: "twos4", A: int64(which), B: int64(n), C: int64(o)})
			}
		}
	}
	for _, pos := range []int64{0, 1, 3, 4, 5} {
		for v := 0; v < 256; v++ {
			for l := 0; l <= 64; l++ {
				for _, fill := range []int64{0x00, 0xff, 0x80} {
					do(c20Case{Prim: "cksum", A: pos, B: int64(v), C: int64(l), D: fill})
				}
			}
		}
	}
	for c := 0; c <= 31; c++ {
		for pos := 0; pos < c || pos == 0; pos++ {
			for _, fill := range []int64{0x00, 0xff, 0x37} {
				for code := 0; code < 16; code++ {
					do(c20Case{Prim: "bcdplus", A: int64(c), B: int64(pos), C: int64(code), D: fill})
				}
				for code := 0; code < 64; code++ {
					do(c20Case{Prim: "sixbit", A: int64(c), B: int64(pos), C: int64(code), D: fill})
				}
				for code := 0; code < 256; code++ {
					do(c20Case{Prim: "latin1", A: int64(c), B: int64(pos), C: int64(code), D: fill & 0x3f})
					if code < 0x80 {
						// the "unicode" type is documented as decoded like 8-bit ASCII; only
						// the ASCII range has an unambiguous meaning there
						do(c20Case{Prim: "unicode", A: int64(c), B: int64(pos), C: int64(code), D: fill & 0x3f})
					}
				}
			}
		}
	}
	// several bytes above 0x7f together (they must not be read as one UTF-8 sequence)
	for a := int64(0x80); a < 0x100; a++ {
		for b := int64(0x80); b < 0x100; b++ {
			do(c20Case{Prim: "latin1seq", A: 2, B: a<<8 | b, C: (a + b) % 3, D: b % 2})
		}
	}
	for lead := int64(0xE0); lead <= 0xEF; lead++ {
		for b := int64(0x80); b < 0xC0; b++ {
			for c3 := int64(0x80); c3 < 0xC0; c3++ {
				if !thorough(r) && (b%4 != 0 && b != 0xBF && b != 0x9F && b != 0xA0) {
					continue
				}
				do(c20Case{Prim: "latin1seq", A: 3, B: lead<<16 | b<<8 | c3, C: c3 % 2, D: 1})
			}
		}
	}
	for lead := int64(0xF0); lead <= 0xF4; lead++ {
		for b := int64(0x80); b < 0xC0; b += 1 {
			for _, c3 := range []int64{0x80, 0x9A, 0xBF} {
				for _, c4 := range []int64{0x80, 0xA1, 0xBF} {
					do(c20Case{Prim: "latin1seq", A: 4, B: lead<<24 | b<<16 | c3<<8 | c4, C: 1, D: 0})
				}
			}
		}
	}
	maxSecs := int64(64 * 86400)
	step := int64(1)
	if !thorough(r) {
		// quick: every second up to 2 days, then every boundary +-2 s and every 61 s
		step = 61
	}
	for s := int64(0); s <= maxSecs+86400; s++ {
		if step > 1 && s > 2*86400 {
			near := s % 86400
			if !(near <= 2 || near >= 86398 || s%step == 0) {
				continue
			}
		}
		do(c20Case{Prim: "ravg_d2b", A: s})
	}
	// far beyond the representable range: whole days up to ten years, and the
	// largest durations a time.Duration holds - all saturate at 63 days
	for days := int64(60); days <= 3660; days++ {
		do(c20Case{Prim: "ravg_d2b", A: days * 86400})
		do(c20Case{Prim: "ravg_d2b", A: days*86400 + 86399})
	}
	for _, sec := range []int64{36500 * 86400, 1 << 32, 9223372035, 9223372036} {
		do(c20Case{Prim: "ravg_d2b", A: sec})
	}
	if step > 1 {
		r.Note("quick tier: rolling-average durations enumerated second-by-second up to 2 days, then around every day boundary and every 61 s; thorough enumerates every whole second up to 65 days")
	}
	r.Bound("rolling_average_seconds_max", maxSecs+86400)
	r.Assume("BCD bytes with a nibble above 9 and reserved codes have no mathematical definition; their outputs are not judged")
	r.Assume("BCD-plus codes Dh..Fh are ':' ',' '_' as in IPMI v2.0 table 43-15 (pinned by the repository's own vectors)")
	_ = math.Abs
}
