package checks

import (
	"bytes"
	"encoding/json"
	"errors"
	"fmt"

	"github.com/gebn/bmc"
	"github.com/gebn/bmc/pkg/ipmi"

	"verif/env"
	"verif/ref"
	"verif/rep"
)

// C02: no session unless the BMC proves knowledge of the password.

func init() {
	register(&Check{ID: "C02", Run: runC02, Shards: 16, MinOutcomes: 3})
	Replayers["c02"] = func(raw json.RawMessage) (string, bool) {
		var c c02Replay
		json.Unmarshal(raw, &c)
		o := c02Exec(c.Scn, &env.Chooser{Prefix: c.Choices})
		key, msg := c02Judge(c.Scn, o)
		return fmt.Sprintf("%+v -> %s %s", c, key, msg), key != ""
	}
}

type c02Scn struct {
	Suite   ref.Suite `json:"suite"`
	WrongPw bool      `json:"wrong_pw"`
	WrongKG bool      `json:"wrong_kg"`
	Reduced bool      `json:"reduced"` // reduced mutation alphabet (k=2)
	UseKG   bool      `json:"use_kg"`
	// SecondReduced: the full alphabet applies until one mutation has been made,
	// then the reduced one (k=2 over full x reduced)
	SecondReduced bool `json:"second_reduced,omitempty"`
	// LongSecret: the caller's password (and KG) are 24 bytes; "wrong" then means
	// the BMC holds only their first 20 bytes
	LongSecret bool `json:"long_secret,omitempty"`
	// Near selects a (caller secret, BMC's different secret) pair that is a near
	// miss: see c02Near
	Near int `json:"near,omitempty"`
	// BufReuse (with WrongPw): the caller keeps its password in one buffer; it
	// first holds the password the BMC knows and is used for a session to
	// another BMC, then it is overwritten in place with the caller's (different)
	// password for the handshake under test
	BufReuse bool `json:"buf_reuse,omitempty"`
	// FirstLost: the first reply to each setup payload is lost (the BMC has processed
	// the request); mutations apply to the reply to the retransmission
	FirstLost bool   `json:"first_lost,omitempty"`
	Username  string `json:"username"`
}

type c02Replay struct {
	Scn     c02Scn   `json:"scn"`
	Choices []int    `json:"choices"`
	Names   []string `json:"names"`
}

// hsMut is one mutation of a handshake reply.
type hsMut struct {
	name  string
	class string // "mustfail", "password" (mustfail with ErrIncorrectPassword), "free"
	// payload transforms the honest inner payload; datagram, if set, transforms
	// the whole honest datagram instead.
	payload  func([]byte) []byte
	datagram func([]byte) []byte
}

func flipBit(off, bit int) func([]byte) []byte {
	return func(p []byte) []byte {
		q := append([]byte{}, p...)
		if off < len(q) {
			q[off] ^= 1 << bit
		}
		return q
	}
}

func setByte(off int, v byte) func([]byte) []byte {
	return func(p []byte) []byte {
		q := append([]byte{}, p...)
		if off < len(q) {
			q[off] = v
		}
		return q
	}
}

// hsMutations lists the mutations of the reply to a request of payload type
// reqPT. tag is the tag the console used (the library always sends 0).
func hsMutations(reqPT byte, suite ref.Suite, reduced bool) []hsMut {
	var ms []hsMut
	al := ref.AuthCodeLen(suite.Auth)
	icvl := map[byte]int{1: 12, 2: 16, 3: 16}[suite.Auth]
	add := func(name, class string, f func([]byte) []byte) {
		// a mutation that does not fit the honest payload (e.g. the BMC already
		// answered with a short error message) leaves it unchanged
		safe := func(p []byte) (out []byte) {
			defer func() {
				if recover() != nil {
					out = p
				}
			}()
			return f(p)
		}
		ms = append(ms, hsMut{name: name, class: class, payload: safe})
	}
	bits := func(prefix, class string, lo, hi int) {
		for off := lo; off < hi; off++ {
			for bit := 0; bit < 8; bit++ {
				if reduced && !(bit == 0 && (off == lo || off == hi-1)) {
					continue
				}
				add(fmt.Sprintf("%s-flip-%d.%d", prefix, off, bit), class, flipBit(off, bit))
			}
		}
	}
	var full int
	switch reqPT {
	case ref.PTOpenReq:
		full = 36
		bits("osr-bmc-sid", "mustfail", 8, 12)
		// unauthenticated bytes: max privilege (2), reserved (3), console SID echo (4..8)
		for _, off := range []int{2, 3, 4, 5, 6, 7} {
			for _, v := range []byte{0x00, 0x01, 0x7F, 0x80, 0xFF} {
				if reduced && v != 0xFF {
					continue
				}
				add(fmt.Sprintf("osr-byte-%d=%02x", off, v), "free", setByte(off, v))
			}
		}
	case ref.PTRAKP1:
		full = 40 + al
		bits("rakp2-sid-echo", "password", 4, 8)
		bits("rakp2-rc", "password", 8, 24)
		bits("rakp2-guid", "password", 24, 40)
		bits("rakp2-authcode", "password", 40, 40+al)
		for _, n := range []int{1, 2, 3, 4} {
			n := n
			add(fmt.Sprintf("rakp2-authcode-short-%d", n), "password", func(p []byte) []byte { return append([]byte{}, p[:len(p)-n]...) })
			add(fmt.Sprintf("rakp2-authcode-long-%d", n), "password", func(p []byte) []byte { return append(append([]byte{}, p...), make([]byte, n)...) })
		}
		add("rakp2-authcode-empty", "password", func(p []byte) []byte { return append([]byte{}, p[:40]...) })
		for _, off := range []int{2, 3} {
			add(fmt.Sprintf("rakp2-byte-%d=ff", off), "free", setByte(off, 0xFF))
		}
	case ref.PTRAKP3:
		full = 8 + icvl
		bits("rakp4-icv", "mustfail", 8, 8+icvl)
		for _, n := range []int{1, 2, 3, 4} {
			n := n
			add(fmt.Sprintf("rakp4-icv-short-%d", n), "mustfail", func(p []byte) []byte { return append([]byte{}, p[:len(p)-n]...) })
			add(fmt.Sprintf("rakp4-icv-long-%d", n), "mustfail", func(p []byte) []byte { return append(append([]byte{}, p...), make([]byte, n)...) })
		}
		add("rakp4-icv-empty", "mustfail", func(p []byte) []byte { return append([]byte{}, p[:8]...) })
		for _, off := range []int{2, 3, 4, 5, 6, 7} {
			add(fmt.Sprintf("rakp4-byte-%d=ff", off), "free", setByte(off, 0xFF))
		}
	default:
		return nil
	}
	pfx := map[byte]string{ref.PTOpenReq: "osr", ref.PTRAKP1: "rakp2", ref.PTRAKP3: "rakp4"}[reqPT]
	for st := 1; st <= 255; st++ {
		if reduced && st != 1 && st != 0x0D && st != 0xFF {
			continue
		}
		st := byte(st)
		// a BMC reporting an error status truncates the message after the
		// console session ID (13.20..13.24); both shapes are offered
		add(fmt.Sprintf("%s-status-%02x", pfx, st), "mustfail", setByte(1, st))
		if st == 1 || st == 0x12 || st == 0xFF {
			add(fmt.Sprintf("%s-status-%02x-short", pfx, st), "mustfail", func(p []byte) []byte {
				q := append([]byte{}, p[:8]...)
				q[1] = st
				return q
			})
		}
	}
	for tg := 1; tg <= 255; tg++ {
		if reduced && tg != 1 && tg != 0xFF {
			continue
		}
		add(fmt.Sprintf("%s-tag-%02x", pfx, tg), "mustfail", setByte(0, byte(tg)))
	}
	for n := 0; n < full; n++ {
		if reduced && n != 0 && n != 7 && n != 8 && n != full-1 {
			continue
		}
		n := n
		add(fmt.Sprintf("%s-truncated-to-%d", pfx, n), "mustfail", func(p []byte) []byte {
			if n > len(p) {
				return p
			}
			return append([]byte{}, p[:n]...)
		})
	}
	// datagram-level damage: the library may retry these (then only a session
	// with the right keys is acceptable)
	cuts := []int{0, 3, 4, 10, 15, 16, 20}
	if !reduced {
		// every length: a wrapper whose length field says more than arrived
		cuts = nil
		for c := 0; c < 16+full; c++ {
			cuts = append(cuts, c)
		}
	}
	for _, cut := range cuts {
		cut := cut
		ms = append(ms, hsMut{name: fmt.Sprintf("%s-datagram-cut-%d", pfx, cut), class: "free", datagram: func(d []byte) []byte {
			if cut > len(d) {
				return d
			}
			return append([]byte{}, d[:cut]...)
		}})
	}
	// the honest payload in a wrapper that claims to be authenticated and carries
	// an integrity trailer with a junk AuthCode: handshake payloads are never
	// authenticated, and nothing could vouch for this one (sticky like the others,
	// so no good copy ever arrives)
	for _, n := range []int{12, 16} {
		n := n
		ms = append(ms, hsMut{name: fmt.Sprintf("%s-wrapper-claims-authenticated-junk-code-%d", pfx, n), class: "mustfail", datagram: func(d []byte) []byte {
			if len(d) < 16 {
				return d
			}
			out := append([]byte{}, d...)
			out[5] |= 0x40
			pad := (4 - (len(out)-4+2)%4) % 4
			for i := 0; i < pad; i++ {
				out = append(out, 0xFF)
			}
			out = append(out, byte(pad), 0x07)
			return append(out, pattern(n, 0x5A, 3)...)
		}})
	}
	return ms
}

type c02Obs struct {
	Sess     bool
	Err      string
	IsPwErr  bool
	Panic    string
	KeysOK   bool
	Applied  []string // mutation names applied (class in Classes)
	Classes  []string
	Attempts int
	CtxCut   bool
}

// c02Near returns the caller's password and KG and the different values a
// "wrong" BMC holds, for near-miss kind n >= 1. HMAC pads keys with zero bytes,
// so secrets differing only in trailing zero bytes are the same key; none of
// these pairs is of that sort.
func c02Near(n int) (pw, bmcPw, kg, bmcKG []byte) {
	kg = pattern(20, 0x30, 1)
	switch n {
	case 1: // embedded NUL: the BMC holds the part before it
		pw, bmcPw = []byte("ab\x00cd"), []byte("ab")
		kg[7] = 0
		bmcKG = append([]byte{}, kg[:7]...)
	case 2: // leading NUL: the BMC holds the empty secret
		pw, bmcPw = []byte("\x00secret"), []byte{}
		kg[0] = 0
		bmcKG = make([]byte, 20)
	case 3: // the BMC's secret is one byte longer
		pw, bmcPw = []byte("s3cret-pass"), []byte("s3cret-pass1")
		bmcKG = append(append([]byte{}, kg[:19]...), kg[19]^1)
	case 4: // white space at the end
		pw, bmcPw = []byte("s3cret-pass "), []byte("s3cret-pass")
		kg[19] = ' '
		bmcKG = append(append([]byte{}, kg[:19]...), 0)
	case 5: // top bit
		pw, bmcPw = []byte("s3cret-pas\xf3"), []byte("s3cret-pass")
		kg[3] |= 0x80
		bmcKG = append([]byte{}, kg...)
		bmcKG[3] &= 0x7f
	case 6: // empty against one byte
		pw, bmcPw = []byte{}, []byte{0x01}
		bmcKG = append([]byte{}, kg...)
		bmcKG[19] ^= 0x80
	case 8: // twenty zero bytes as KG against a BMC without a KG (it keys the SIK with the password)
		pw, bmcPw = []byte("s3cret-pass"), []byte("s3cret-pasS")
		kg = make([]byte, 20)
		bmcKG = []byte{}
	case 7: // same bytes in another order
		pw, bmcPw = []byte("s3cret-pass"), []byte("3scret-pass")
		bmcKG = append([]byte{}, kg...)
		bmcKG[0], bmcKG[1] = bmcKG[1], bmcKG[0]
	}
	return
}

const c02Nears = 8

func c02Exec(scn c02Scn, ch *env.Chooser) *c02Obs {
	cfg := defaultConfig()
	pw := []byte("s3cret-pass")
	cfg.Password = pw
	if scn.UseKG {
		cfg.KG = pattern(20, 0x30, 1)
	}
	kg := cfg.KG
	if scn.LongSecret {
		pw = []byte("a-password-of-24-bytes!!")
		cfg.Password = pw
		if scn.UseKG {
			cfg.KG = pattern(24, 0x30, 1)
		}
		kg = cfg.KG
	}
	if scn.WrongPw {
		cfg.Password = []byte("s3cret-pasS")
		if scn.LongSecret {
			cfg.Password = pw[:20]
		}
	}
	if scn.WrongKG {
		cfg.KG = pattern(20, 0x31, 1)
		if scn.LongSecret {
			cfg.KG = kg[:20]
		}
	}
	if scn.Near > 0 {
		npw, nbpw, nkg, nbkg := c02Near(scn.Near)
		pw, cfg.Password = npw, npw
		if scn.UseKG {
			kg, cfg.KG = nkg, nkg
		}
		if scn.WrongPw {
			cfg.Password = nbpw
		}
		if scn.WrongKG {
			cfg.KG = nbkg
		}
	}
	if scn.BufReuse && len(pw) == len(cfg.Password) {
		buf := append([]byte{}, cfg.Password...)
		cfg0 := cfg
		w0 := newWorld(cfg0, nil, nil)
		if s0, err := w0.Conn.NewV2Session(w0.Ctx, &bmc.V2SessionOpts{
			SessionOpts:  bmc.SessionOpts{Username: scn.Username, Password: buf, MaxPrivilegeLevel: ipmi.PrivilegeLevelAdministrator},
			KG:           cfg.KG,
			CipherSuites: []ipmi.CipherSuite{suiteOf(scn.Suite)},
		}); err == nil {
			s0.Close(w0.Ctx)
		}
		copy(buf, pw)
		pw = buf
	}
	w := newWorld(cfg, ch, nil)
	o := &c02Obs{}
	sticky := map[byte]*hsMut{}
	lostOnce := map[byte]bool{}
	w.T.Menu = func(t *env.Transport, req []byte) []env.Answer {
		if len(req) < 6 {
			return []env.Answer{env.Honest()}
		}
		pt := req[5] & 0x3f
		mk := func(m *hsMut) env.Answer {
			return env.Answer{Name: m.name, Apply: func(t *env.Transport, rx *ref.Rx) {
				if sticky[pt] == nil {
					sticky[pt] = m
					o.Applied = append(o.Applied, m.name)
					o.Classes = append(o.Classes, m.class)
				}
				if rx == nil || rx.ReplyPayload == nil {
					if b := t.BMC.Honest(rx); b != nil {
						t.Enqueue(b, "honest")
					}
					return
				}
				if m.datagram != nil {
					t.Enqueue(m.datagram(t.BMC.Honest(rx)), m.name)
					return
				}
				t.Enqueue(ref.BuildPacket(rx.ReplyPType, false, 0, 0, m.payload(rx.ReplyPayload), nil), m.name)
			}}
		}
		if m := sticky[pt]; m != nil {
			return []env.Answer{mk(m)}
		}
		if scn.FirstLost && !lostOnce[pt] {
			lostOnce[pt] = true
			return []env.Answer{env.LostReply()}
		}
		ms := hsMutations(pt, scn.Suite, scn.Reduced || (scn.SecondReduced && len(o.Applied) > 0))
		out := []env.Answer{env.Honest()}
		for i := range ms {
			out = append(out, mk(&ms[i]))
		}
		return out
	}
	// horizon: the environment repeats a sticky mutation; after 4 attempts of
	// one payload the caller's context expires.
	attemptsOf := map[byte]int{}
	inner := w.T.Menu
	w.T.Menu = func(t *env.Transport, req []byte) []env.Answer {
		if len(req) >= 6 {
			pt := req[5] & 0x3f
			attemptsOf[pt]++
			if attemptsOf[pt] > 4 {
				o.CtxCut = true
				w.Cancel()
			}
		}
		return inner(t, req)
	}
	opts := &bmc.V2SessionOpts{
		SessionOpts:  bmc.SessionOpts{Username: scn.Username, Password: pw, MaxPrivilegeLevel: ipmi.PrivilegeLevelAdministrator},
		KG:           kg,
		CipherSuites: []ipmi.CipherSuite{suiteOf(scn.Suite)},
	}
	var sess *bmc.V2Session
	var err error
	o.Panic = guard(func() { sess, err = w.Conn.NewV2Session(w.Ctx, opts) })
	o.Attempts = len(w.T.Log)
	if err != nil {
		o.Err = err.Error()
		o.IsPwErr = errors.Is(err, bmc.ErrIncorrectPassword)
	}
	if sess != nil {
		o.Sess = true
		bs := w.BMC.Sessions[cfg.SIDC]
		o.KeysOK = bs != nil && bs.Active && bytes.Equal(sess.SIK, bs.SIK) && bytes.Equal(sess.K(1), bs.K1) && bytes.Equal(sess.K(2), bs.K2)
	}
	return o
}

func c02Judge(scn c02Scn, o *c02Obs) (string, string) {
	if o.Panic != "" {
		return "C02/panic/" + siteKey(o.Panic), fmt.Sprintf("panic during handshake with mutations %v: %s", o.Applied, o.Panic)
	}
	class := "none"
	for _, c := range o.Classes {
		switch {
		case c == "password" && (class == "none" || class == "free"):
			class = "password"
		case c == "mustfail":
			class = "mustfail"
		case c == "free" && class == "none":
			class = "free"
		}
	}
	if scn.WrongPw && class != "mustfail" {
		class = "password"
	}
	if scn.WrongKG && class == "none" || scn.WrongKG && class == "free" {
		class = "mustfail"
	}
	what := fmt.Sprintf("mutations %v wrongPw=%v wrongKG=%v", o.Applied, scn.WrongPw, scn.WrongKG)
	switch class {
	case "none":
		if !o.Sess || !o.KeysOK {
			return "C02/honest-handshake-failed", "unmodified transcript did not produce a session with the BMC's keys: " + o.Err
		}
	case "free":
		if o.Sess && !o.KeysOK {
			return "C02/session-with-wrong-keys", what + ": session returned whose keys differ from the BMC's"
		}
		if !o.Sess && o.Err == "" {
			return "C02/no-session-no-error", what
		}
	case "mustfail", "password":
		if o.Sess || o.Err == "" {
			return "C02/session-despite/" + mutClass(o.Applied), what + ": a session was returned (or no error)"
		}
		// The incorrect-password error is only demanded when the wrong RAKP2
		// code is the first thing that can fail: a single RAKP2 mutation or a
		// wrong password with no other mutation.
		if class == "password" && len(o.Applied) <= 1 && !o.IsPwErr && !o.CtxCut {
			return "C02/wrong-rakp2-code-not-reported-as-incorrect-password/" + mutClass(o.Applied), what + ": error was " + o.Err
		}
	}
	return "", ""
}

// mutClass strips the position from a mutation name: the violation key names
// the kind of mutation, not each bit.
func mutClass(names []string) string {
	if len(names) == 0 {
		return "wrong-secret"
	}
	n := names[0]
	for i, c := range n {
		if c >= '0' && c <= '9' {
			for i > 0 && n[i-1] == '-' {
				i--
			}
			return n[:i]
		}
	}
	return n
}

func runC02(r *rep.R) {
	r.SetRule("a case is one execution of NewV2Session against the reference BMC with a vector of environment choices: at each handshake Send the reply is honest or one mutation from the catalogue (bit flips of every authenticated bit, every status 1..255, every tag, every truncation, code length changes, unauthenticated-byte corruption, datagram cuts); mutations are sticky per payload type; all executions with <= bound deviations are enumerated")
	suites := []ref.Suite{{1, 1, 1}, {2, 2, 1}, {3, 4, 1}}
	var idx int64
	bound := 1
	for _, s := range suites {
		var variants []c02Scn
		for _, variant := range []c02Scn{
			{Suite: s, Username: "admin"},
			{Suite: s, Username: "", UseKG: true},
			{Suite: s, Username: "admin", WrongPw: true},
			{Suite: s, Username: "admin", UseKG: true, WrongKG: true},
			{Suite: s, Username: "0123456789abcdef", UseKG: true, WrongPw: true},
			{Suite: s, Username: "admin", UseKG: true, LongSecret: true},
			{Suite: s, Username: "admin", LongSecret: true, WrongPw: true},
			{Suite: s, Username: "admin", UseKG: true, LongSecret: true, WrongKG: true},
		} {
			variants = append(variants, variant)
		}
		variants = append(variants,
			c02Scn{Suite: s, Username: "admin", FirstLost: true},
			c02Scn{Suite: s, Username: "admin", UseKG: true, WrongKG: true, FirstLost: true},
			// the same handshake for a suite without per-packet integrity: the
			// RAKP 4 integrity check value is part of authentication, not of that
			c02Scn{Suite: ref.Suite{Auth: s.Auth, Integ: 0, Conf: 1}, Username: "admin"},
			c02Scn{Suite: ref.Suite{Auth: s.Auth, Integ: 0, Conf: 1}, Username: "admin", UseKG: true, WrongKG: true},
			c02Scn{Suite: s, Username: "admin", WrongPw: true, BufReuse: true},
			c02Scn{Suite: s, Username: "admin", UseKG: true, WrongPw: true, BufReuse: true})
		for n := 1; n <= c02Nears; n++ {
			variants = append(variants,
				c02Scn{Suite: s, Username: "admin", UseKG: true, Near: n},
				c02Scn{Suite: s, Username: "admin", Near: n, WrongPw: true},
				c02Scn{Suite: s, Username: "admin", UseKG: true, Near: n, WrongKG: true})
		}
		for _, variant := range variants {
			scn := variant
			if scn.WrongPw || scn.WrongKG || scn.UseKG {
				scn.Reduced = true // full catalogue only from the plain correct transcript
			}
			c02Explore(r, scn, bound, &idx)
		}
		if thorough(r) {
			scn := c02Scn{Suite: s, Username: "admin", Reduced: true}
			c02Explore(r, scn, 2, &idx)
			scn = c02Scn{Suite: s, Username: "admin", Reduced: true, WrongPw: true}
			c02Explore(r, scn, 2, &idx)
			// full alphabet for the first mutation, reduced for the second
			scn = c02Scn{Suite: s, Username: "admin", SecondReduced: true}
			c02Explore(r, scn, 2, &idx)
			// and the full alphabet for both
			scn = c02Scn{Suite: s, Username: "admin"}
			c02Explore(r, scn, 2, &idx)
		}
	}
	r.Bound("deviations_quick", 1)
	if thorough(r) {
		r.Bound("deviations_thorough", "2 over the full alphabet (correct transcript), 2 over the reduced alphabet (wrong password)")
	}
	r.Bound("attempt_horizon", 4)
	r.Assume("a mutated reply is repeated for every retransmission of the same payload (sticky), and the caller's context expires after 4 attempts of one payload")
	r.Assume("for truncations and datagram damage the text leaves free whether the library retries; only 'no session unless keys equal the BMC's' is demanded there")
}

func c02Explore(r *rep.R, scn c02Scn, bound int, idx *int64) {
	tag := fmt.Sprintf("c02/%v/pw%v/kg%v/%v/red%v/%v/%v/u%d/near%d/buf%v/lost%v", scn.Suite, scn.WrongPw, scn.WrongKG, scn.UseKG, scn.Reduced, scn.SecondReduced, scn.LongSecret, len(scn.Username), scn.Near, scn.BufReuse, scn.FirstLost)
	e := &env.Explorer{R: r, Bound: bound, Scenario: tag, Idx: idx,
		Run: func(ch *env.Chooser) any { return c02Exec(scn, ch) },
	}
	e.Check = func(ch *env.Chooser, obs any) {
		o := obs.(*c02Obs)
		key, msg := c02Judge(scn, o)
		if key == "" {
			switch {
			case o.Sess:
				r.Outcome("session-with-bmc-keys")
			case o.IsPwErr:
				r.Outcome("error:incorrect-password")
			case o.CtxCut:
				r.Outcome("error:context-expired-after-retries")
			default:
				r.Outcome("error:other")
			}
			if len(o.Applied) > 0 && r.WantSample() {
				r.Sample(map[string]any{"scenario": tag, "choices": ch.Choices, "mutations": o.Applied, "error": o.Err})
			}
			return
		}
		r.Outcome("violation")
		var names []string
		for i, p := range ch.Points {
			names = append(names, p.Menu[ch.Choices[i]])
		}
		choices := append([]int{}, ch.Choices...)
		r.Violate(key, msg, "c02", c02Replay{Scn: scn, Choices: choices, Names: names}, func() bool {
			k, _ := c02Judge(scn, c02Exec(scn, &env.Chooser{Prefix: choices}))
			return k == key
		})
	}
	e.Explore()
}
