package checks

import (
	"crypto/aes"
	"crypto/cipher"
	"encoding/json"
	"fmt"
	"sort"
	"strings"

	"github.com/gebn/bmc"
	"github.com/gebn/bmc/pkg/dcmi"
	"github.com/gebn/bmc/pkg/ipmi"

	"verif/env"
	"verif/ref"
	"verif/rep"
)

// Protocol-level part of C05: the nasty catalogue, wrapped in valid outer
// layers (and signed/encrypted with the session keys where the position is
// inside a session), is delivered as the reply at every protocol position.

var (
	opRetrieveSDRs, opDiscover, opSensorInfo int
)

func init() {
	opRetrieveSDRs = addOp(histOp{Name: "RetrieveSDRRepository", Custom: func(w *World, conn bmc.Connection, sess *bmc.V2Session) (string, error) {
		repo, err := bmc.RetrieveSDRRepository(w.Ctx, sess)
		if err != nil {
			return "", err
		}
		var ids []int
		for id := range repo {
			ids = append(ids, int(id))
		}
		sort.Ints(ids)
		out := ""
		for _, id := range ids {
			out += fmt.Sprintf("%#04x:%+v;", id, *repo[ipmiRecordID(id)])
		}
		return out, nil
	}})
	opDiscover = addOp(histOp{Name: "RetrieveSupportedCipherSuites", Custom: func(w *World, conn bmc.Connection, sess *bmc.V2Session) (string, error) {
		recs, err := bmc.RetrieveSupportedCipherSuites(w.Ctx, w.Conn)
		return fmt.Sprintf("%v", recs), err
	}})
	opSensorInfo = addOp(histOp{Name: "dcmi.GetSensorInfo", Custom: func(w *World, conn bmc.Connection, sess *bmc.V2Session) (string, error) {
		si, err := dcmi.GetSensorInfo(w.Ctx, sess)
		if err != nil {
			return "", err
		}
		return fmt.Sprintf("%+v", *si), nil
	}})
	Replayers["c05endless"] = func(raw json.RawMessage) (string, bool) {
		var c c05EndlessCase
		json.Unmarshal(raw, &c)
		k, msg := c05Endless(c)
		return fmt.Sprintf("%+v: %s %s", c, k, msg), k != ""
	}
	histAlphabets["nasty"] = nastyAlphabet
	histJudges["C05"] = c05ProtoJudge
}

// nastyAlphabet: honest reply + bodies of every length/fill, messages of every
// short length, crafted AES payloads (in session), crafted setup payloads.
func nastyAlphabet(cfg histCfg, w *World) []histAnswer {
	a := []histAnswer{{Answer: env.Honest(), Class: clsFinal, Own: true}}
	add := func(name string, f func(t *env.Transport, rx *ref.Rx) []byte) {
		a = append(a, histAnswer{Answer: env.Raw(name, func(t *env.Transport, rx *ref.Rx) []byte {
			if rx == nil {
				return nil
			}
			if b := f(t, rx); b != nil {
				return b
			}
			return t.BMC.Honest(rx) // entry does not apply at this position
		}), Class: clsUndecodable})
	}
	fills := [][2]byte{{0x00, 0}, {0xFF, 0}, {0x01, 1}, {0xC0, 0}}
	// (1) response body / setup payload replaced by n bytes of a fill
	for n := 0; n <= 44; n++ {
		for _, f := range fills {
			n, f := n, f
			add(fmt.Sprintf("body/len=%d/fill=%02x+%d", n, f[0], f[1]), func(t *env.Transport, rx *ref.Rx) []byte {
				body := pattern(n, f[0], f[1])
				if rx.ReplyPayload != nil {
					if n > 0 && f[1] == 1 {
						body[0] = 0 // keep the tag so the status/length paths are reached
						if n > 1 {
							body[1] = 0 // status OK
						}
					}
					return ref.BuildPacket(rx.ReplyPType, false, 0, 0, body, nil)
				}
				if rx.Msg == nil {
					return nil
				}
				if rx.Msg.NetFn == 0x2c && n > 0 {
					body[0] = 0xDC
				}
				return t.BMC.Respond(rx, 0, body)
			})
		}
	}
	// (1b) DCMI sensor-info pages whose total-instances byte disagrees with what
	// earlier pages said (each reply well-formed on its own)
	for _, total := range []byte{0, 1, 2, 3, 200, 255} {
		total := total
		add(fmt.Sprintf("dcmi-sensor-info/total=%d", total), func(t *env.Transport, rx *ref.Rx) []byte {
			if rx.Msg == nil || rx.Msg.NetFn != 0x2c || rx.Msg.Cmd != 0x07 || len(rx.Body) < 3 {
				return nil
			}
			body := append([]byte{}, rx.Body...)
			body[1] = total
			return t.BMC.Respond(rx, 0, body)
		})
		add(fmt.Sprintf("dcmi-sensor-info/total=%d/empty-page", total), func(t *env.Transport, rx *ref.Rx) []byte {
			if rx.Msg == nil || rx.Msg.NetFn != 0x2c || rx.Msg.Cmd != 0x07 {
				return nil
			}
			return t.BMC.Respond(rx, 0, []byte{0xDC, total, 0})
		})
	}
	// (2) honest body cut at every length and extended
	for n := 0; n <= 40; n++ {
		n := n
		add(fmt.Sprintf("body/cut=%d", n), func(t *env.Transport, rx *ref.Rx) []byte {
			if rx.ReplyPayload != nil {
				if n >= len(rx.ReplyPayload) {
					return nil
				}
				return ref.BuildPacket(rx.ReplyPType, false, 0, 0, rx.ReplyPayload[:n], nil)
			}
			if rx.Msg == nil || n >= len(rx.Body) {
				return nil
			}
			return t.BMC.Respond(rx, rx.CC, rx.Body[:n])
		})
	}
	// (3) IPMI messages of every short length inside a valid wrapper, request-
	// and response-shaped, plain and special NetFns
	for _, nf := range []byte{0x07, 0x06, 0x2d, 0x2f, 0x2c} {
		for n := 0; n <= 10; n++ {
			nf, n := nf, n
			add(fmt.Sprintf("msg/netfn=%02x/len=%d", nf, n), func(t *env.Transport, rx *ref.Rx) []byte {
				if rx.Msg == nil {
					return nil
				}
				full := ref.BuildMsg(0x81, nf, 0, 0x20, rx.Msg.Seq, 0, rx.Msg.Cmd, pattern(4, 0, 0))
				m := append([]byte{}, full[:min(n, len(full))]...)
				if n >= 7 {
					m = ref.BuildMsg(0x81, nf, 0, 0x20, rx.Msg.Seq, 0, rx.Msg.Cmd, pattern(n-7, 0, 0))
				}
				return t.BMC.WrapIPMI(rx.Sess, m)
			})
		}
	}
	// (4) in session: payloads whose decryption ends in every pad-length byte,
	// with the preceding bytes (and IV) shaped as the validator expects
	for blocks := 1; blocks <= 2; blocks++ {
		for pad := 0; pad < 256; pad++ {
			blocks, pad := blocks, pad
			add(fmt.Sprintf("aes/blocks=%d/pad=%d", blocks, pad), func(t *env.Transport, rx *ref.Rx) []byte {
				s := rx.Sess
				if s == nil || !s.Active || s.HS.Suite.Conf != ref.ConfAES128 {
					return nil
				}
				full := make([]byte, 16+16*blocks)
				for i := range full {
					full[i] = 0x3C
				}
				full[len(full)-1] = byte(pad)
				start := len(full) - pad - 1
				v := byte(1)
				for i := start; i < start+pad; i++ {
					if i >= 0 && i < len(full)-1 {
						full[i] = v
					}
					v++
				}
				c, _ := aes.NewCipher(s.K2[:16])
				ct := make([]byte, 16*blocks)
				cipher.NewCBCEncrypter(c, full[:16]).CryptBlocks(ct, full[16:])
				s.OutSeq++
				return ref.BuildPacket(ref.PTIPMI, true, s.HS.SIDM, s.OutSeq, append(append([]byte{}, full[:16]...), ct...), s.Integ)
			})
		}
	}
	// (6) Get SDR replies shaped like records: every header type/length the walk
	// branches on, and record bodies of every length with every kind of ID string
	isGetSDR := func(rx *ref.Rx) bool { return rx.Msg != nil && rx.Msg.NetFn == 0x0a && rx.Msg.Cmd == 0x23 }
	for _, typ := range []byte{0x01, 0x02, 0x11, 0xC0, 0x00, 0xFF} {
		for _, l := range []byte{0, 1, 5, 42, 43, 44, 48, 59, 63, 64, 65, 255} {
			typ, l := typ, l
			add(fmt.Sprintf("sdr/header/type=%02x/len=%d", typ, l), func(t *env.Transport, rx *ref.Rx) []byte {
				if !isGetSDR(rx) || rx.Fields["off"] != 0 {
					return nil
				}
				return t.BMC.Respond(rx, 0, []byte{0xFF, 0xFF, 0x01, 0x00, 0x51, typ, l})
			})
		}
	}
	for n := 0; n <= 66; n++ {
		for _, tl := range []byte{0x00, 0x1F, 0x41, 0x5F, 0x80, 0x9F, 0xC0, 0xC1, 0xDF, 0xFF} {
			if n < 43 && tl != 0xC0 {
				continue
			}
			n, tl := n, tl
			add(fmt.Sprintf("sdr/body/len=%d/typelen=%02x", n, tl), func(t *env.Transport, rx *ref.Rx) []byte {
				if !isGetSDR(rx) || rx.Fields["off"] == 0 {
					return nil
				}
				body := pattern(n, 0x11, 3)
				if n > 42 {
					body[42] = tl
				}
				return t.BMC.Respond(rx, 0, append([]byte{0xFF, 0xFF}, body...))
			})
		}
	}
	// (5) wrapper-level: length field beyond the data, OEM payload type, v1.5 wrapper, bare RMCP
	for i, raw := range [][]byte{
		{0x06, 0x00, 0xFF, 0x07},
		{0x06, 0x00, 0xFF, 0x07, 0x06},
		{0x06, 0x00, 0xFF, 0x07, 0x06, 0x00, 0, 0, 0, 0, 0, 0, 0, 0, 0xFF, 0xFF},
		{0x06, 0x00, 0xFF, 0x07, 0x06, 0x02, 1, 2, 3, 4, 5, 6, 0, 0, 0, 0, 0, 0, 0, 0, 1, 0, 9},
		{0x06, 0x00, 0xFF, 0x07, 0x06, 0xC0, 1, 0, 0, 0, 1, 0, 0, 0, 0, 0},
		{0x06, 0x00, 0xFF, 0x07, 0x06, 0x40, 1, 0, 0, 0, 1, 0, 0, 0, 0, 0, 0xFF, 0xFF, 0xFF},
		{0x06, 0x00, 0xFF, 0x07, 0x00, 1, 0, 0, 0, 2, 0, 0, 0, 3, 1, 2, 3},
		{0x06, 0x00, 0xFF, 0x07, 0x02, 1, 0, 0, 0, 2, 0, 0, 0},
		{0x06, 0x00, 0xFF, 0x06, 0, 0, 0x11, 0xBE, 0x40, 0, 0, 0},
		{},
	} {
		raw := raw
		add(fmt.Sprintf("raw/%d", i), func(t *env.Transport, rx *ref.Rx) []byte { return append([]byte{0}[:0], raw...) })
	}
	return a
}

func c05ProtoJudge(cfg histCfg, o *histObs) []finding {
	var out []finding
	if o.HS.Panic != "" {
		out = append(out, finding{"C05/protocol/panic/" + siteKey(o.HS.Panic), fmt.Sprintf("handshake panicked under answers %v: %s", o.HS.Answers, o.HS.Panic)})
	}
	for pos, oi := range cfg.Ops {
		if pos >= len(o.Results) {
			break
		}
		r := o.Results[pos]
		if r.Panic != "" {
			out = append(out, finding{"C05/protocol/panic/" + siteKey(r.Panic), fmt.Sprintf("%s panicked when the reply was %v: %s", histOps[oi].Name, r.Answers, r.Panic)})
		}
	}
	return out
}

// c05EndlessCase: a BMC every one of whose replies is well-formed and asks the
// library to continue a paged exchange.
type c05EndlessCase struct {
	Kind  string `json:"kind"`
	Bytes int    `json:"bytes"` // cipher-suite record data served (16 per list index, index taken modulo 64)
}

// c05Endless runs one paged exchange against such a BMC with a live context
// that never expires (every reply arrives at once, no time passes): the
// exchange must end by itself. The transport gives control back (Runaway)
// after 400 transmissions - six times what the protocol's 64 list indexes allow.
func c05Endless(c c05EndlessCase) (string, string) {
	cfg := defaultConfig()
	rec := csRecOEM.Encode()
	var data []byte
	for len(data) < c.Bytes {
		data = append(data, rec...)
	}
	cfg.CipherSuiteData = data[:c.Bytes]
	w := newWorld(cfg, nil, nil)
	w.T.MaxAttempts = 400
	var err error
	p := guard(func() {
		switch c.Kind {
		case "RetrieveSupportedCipherSuites":
			_, err = bmc.RetrieveSupportedCipherSuites(w.Ctx, w.Conn)
		case "NewV2Session-with-discovery":
			var s *bmc.V2Session
			s, err = w.Conn.NewV2Session(w.Ctx, &bmc.V2SessionOpts{SessionOpts: bmc.SessionOpts{Username: "c05", Password: cfg.Password, MaxPrivilegeLevel: ipmi.PrivilegeLevelUser}})
			if err == nil {
				s.Close(w.Ctx)
			}
		}
	})
	if strings.HasPrefix(p, "RUNAWAY") {
		return "C05/protocol/unbounded-loop/" + c.Kind, fmt.Sprintf("%s against a BMC serving %d bytes of cipher-suite records in full 16-byte chunks: %s (list indexes requested: %d)", c.Kind, c.Bytes, p, len(w.T.Log))
	}
	if p != "" {
		return "C05/protocol/panic/" + siteKey(p), fmt.Sprintf("%s with %d bytes of record data: %s", c.Kind, c.Bytes, p)
	}
	_ = err // a value or an error: both are fine
	return "", ""
}

func runC05Proto(r *rep.R, idx *int64) {
	for _, kind := range []string{"RetrieveSupportedCipherSuites", "NewV2Session-with-discovery"} {
		for _, n := range []int{1008, 1016, 1023, 1024, 1025, 1032, 2048, 4096} {
			*idx++
			if !r.Mine(*idx) {
				continue
			}
			c := c05EndlessCase{Kind: kind, Bytes: n}
			k, msg := c05Endless(c)
			r.Eval(rep.H("endless", kind, n), true)
			r.Trace()
			if k != "" {
				r.Outcome("violation")
				r.Violate(k, msg, "c05endless", c, nil)
			} else {
				r.Outcome("paged-exchange-ends-by-itself")
			}
		}
	}
	suite := ref.Suite{Auth: 1, Integ: 1, Conf: 1}
	// in-session positions
	for _, op := range []int{opGetDeviceID, opGetSDR, opPowerReading, opSessionInfo, opSensorReading, opChassisStatus, opSetPriv, opRetrieveSDRs, opSensorInfo, opClose} {
		cfg := histCfg{Suite: suite, InSession: true, Ops: []int{op}, Horizon: 12, Alphabet: "nasty"}
		histExploreWith(r, "C05", cfg, 1, idx, c05ProtoJudge)
	}
	// session-less positions, including every page of cipher-suite discovery
	for _, op := range []int{opSystemGUID, opAuthCaps, opDiscover} {
		cfg := histCfg{Suite: suite, InSession: false, Ops: []int{op}, Horizon: 6, Alphabet: "nasty"}
		histExploreWith(r, "C05", cfg, 1, idx, c05ProtoJudge)
	}
	// complete, cryptographically valid handshakes whose Open Session Response
	// carries every value of the (unauthenticated) maximum-privilege byte
	for v := 0; v < 256; v++ {
		*idx++
		if !r.Mine(*idx) {
			continue
		}
		cfg := defaultConfig()
		pv := byte(v)
		cfg.OpenRspPriv = &pv
		cfg.OpenRspPrivRaw = true
		w := newWorld(cfg, nil, nil)
		p := guard(func() {
			if s, err := w.Conn.NewV2Session(w.Ctx, &bmc.V2SessionOpts{SessionOpts: bmc.SessionOpts{Username: "c05", Password: cfg.Password, MaxPrivilegeLevel: ipmi.PrivilegeLevelOperator}, CipherSuites: []ipmi.CipherSuite{ipmi.CipherSuite3}}); err == nil {
				s.GetDeviceID(w.Ctx)
				s.Close(w.Ctx)
			}
		})
		r.Eval(rep.H("osr-priv", v), true)
		r.Trace()
		if p != "" {
			r.Outcome("violation")
			r.Violate("C05/protocol/panic/"+siteKey(p), fmt.Sprintf("handshake with privilege byte %#02x in the Open Session Response: %s", v, p), "c05osrpriv", map[string]int{"priv": v}, nil)
		} else {
			r.Outcome("handshake-with-odd-privilege-byte:no-panic")
		}
	}
	// every completion code on a matching reply (the code ends up in error
	// texts and metric labels)
	for _, inSess := range []bool{true, false} {
		cfg := histCfg{Suite: suite, InSession: inSess, Ops: []int{opGetDeviceID}, Horizon: 2, Alphabet: "codes"}
		if !inSess {
			cfg.Ops = []int{opSystemGUID}
		}
		histExploreWith(r, "C05", cfg, 1, idx, c05ProtoJudge)
	}
	// handshake positions (discovery, Open Session, RAKP 2, RAKP 4)
	for _, disc := range []bool{false, true} {
		cfg := histCfg{Suite: suite, InSession: true, Ops: []int{opGetDeviceID}, Horizon: 2, HSAlphabet: "nasty", Discover: disc}
		histExploreWith(r, "C05", cfg, 1, idx, c05ProtoJudge)
	}
}
