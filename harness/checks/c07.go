package checks

import (
	"encoding/json"
	"fmt"
	"github.com/gebn/bmc"
	"net"
	"reflect"
	"sort"
	"strings"
	"time"
	"verif/env"

	"github.com/gebn/bmc/pkg/dcmi"
	"github.com/gebn/bmc/pkg/ipmi"
	"github.com/google/gopacket"

	"verif/ref"
	"verif/rep"
)

// C07: responses decode exactly as specified; malformed ones are rejected.

func init() {
	register(&Check{ID: "C07", Run: runC07, Shards: 16, MinOutcomes: 3})
	Replayers["c07"] = func(raw json.RawMessage) (string, bool) {
		var c c07Case
		json.Unmarshal(raw, &c)
		for _, l := range c07Layers() {
			if l.Name == c.Layer {
				k, msg := c07One(l, c.Input)
				return fmt.Sprintf("%s % x: %s %s", c.Layer, c.Input, k, msg), k != ""
			}
		}
		if c.Layer == "reject" {
			k, msg := c07Reject(c.Kind, c.Input)
			return k + " " + msg, k != ""
		}
		return "unknown layer", false
	}
	Replayers["c07conn"] = func(raw json.RawMessage) (string, bool) {
		var c c07ConnCase
		json.Unmarshal(raw, &c)
		k, msg := c07Conn(c)
		return k + " " + msg, k != ""
	}
}

type c07Case struct {
	Layer string `json:"layer"`
	Kind  string `json:"kind,omitempty"`
	Input []byte `json:"input"`
}

type rspLayer struct {
	Name string
	New  func() decoder
	Ref  func([]byte) (ref.Fields, bool, error)
	Min  int // minimum body length per the specification
}

func c07Layers() []rspLayer {
	caps := func(p int) func([]byte) (ref.Fields, bool, error) {
		return func(d []byte) (ref.Fields, bool, error) { return ref.DCMICaps(p, d) }
	}
	return []rspLayer{
		{"ipmi.Message", func() decoder { return &ipmi.Message{} }, ref.LANMessage, 7},
		{"ipmi.GetDeviceIDRsp", func() decoder { return &ipmi.GetDeviceIDRsp{} }, ref.DeviceID, 11},
		{"ipmi.GetChassisStatusRsp", func() decoder { return &ipmi.GetChassisStatusRsp{} }, ref.ChassisStatus, 3},
		{"ipmi.GetChannelAuthenticationCapabilitiesRsp", func() decoder { return &ipmi.GetChannelAuthenticationCapabilitiesRsp{} }, ref.AuthCaps, 8},
		{"ipmi.GetSessionInfoRsp", func() decoder { return &ipmi.GetSessionInfoRsp{} }, ref.SessionInfo, 3},
		{"ipmi.GetSDRRepositoryInfoRsp", func() decoder { return &ipmi.GetSDRRepositoryInfoRsp{} }, ref.SDRRepositoryInfo, 14},
		{"ipmi.GetSensorReadingRsp", func() decoder { return &ipmi.GetSensorReadingRsp{} }, ref.SensorReading, 3},
		{"ipmi.SDR", func() decoder { return &ipmi.SDR{} }, ref.SDRHeader, 5},
		{"ipmi.FullSensorRecord", func() decoder { return &ipmi.FullSensorRecord{} }, ref.FullSensorRecord, 43},
		{"dcmi.GetPowerReadingRsp", func() decoder { return &dcmi.GetPowerReadingRsp{} }, ref.PowerReading, 17},
		{"dcmi.GetDCMISensorInfoRsp", func() decoder { return &dcmi.GetDCMISensorInfoRsp{} }, ref.DCMISensorInfo, 2},
		{"dcmi.GetDCMICapabilitiesInfoSupportedCapabilitiesRsp", func() decoder { return &dcmi.GetDCMICapabilitiesInfoSupportedCapabilitiesRsp{} }, caps(1), 6},
		{"dcmi.GetDCMICapabilitiesInfoMandatoryPlatformAttrsRsp", func() decoder { return &dcmi.GetDCMICapabilitiesInfoMandatoryPlatformAttrsRsp{} }, caps(2), 7},
		{"dcmi.GetDCMICapabilitiesInfoOptionalPlatformAttrsRsp", func() decoder { return &dcmi.GetDCMICapabilitiesInfoOptionalPlatformAttrsRsp{} }, caps(3), 5},
		{"dcmi.GetDCMICapabilitiesInfoManageabilityAccessAttrsRsp", func() decoder { return &dcmi.GetDCMICapabilitiesInfoManageabilityAccessAttrsRsp{} }, caps(4), 6},
		{"dcmi.GetDCMICapabilitiesInfoEnhancedSystemPowerStatisticsAttrsRsp", func() decoder {
			return &dcmi.GetDCMICapabilitiesInfoEnhancedSystemPowerStatisticsAttrsRsp{}
		}, caps(5), 4},
		{"ipmi.GetSystemGUIDRsp", func() decoder { return &ipmi.GetSystemGUIDRsp{} }, func(d []byte) (ref.Fields, bool, error) {
			if len(d) < 16 {
				return nil, false, fmt.Errorf("short")
			}
			var g [16]byte
			copy(g[:], d)
			return ref.Fields{"GUID": g}, false, nil
		}, 16},
		{"ipmi.SetSessionPrivilegeLevelRsp", func() decoder { return &ipmi.SetSessionPrivilegeLevelRsp{} }, func(d []byte) (ref.Fields, bool, error) {
			if len(d) < 1 {
				return nil, false, fmt.Errorf("short")
			}
			return ref.Fields{"PrivilegeLevel": d[0] & 0x0f}, d[0]&0xf0 != 0 || len(d) != 1, nil
		}, 1},
		{"ipmi.ReserveSDRRepositoryRsp", func() decoder { return &ipmi.ReserveSDRRepositoryRsp{} }, func(d []byte) (ref.Fields, bool, error) {
			if len(d) < 2 {
				return nil, false, fmt.Errorf("short")
			}
			return ref.Fields{"ReservationID": uint16(d[0]) | uint16(d[1])<<8}, false, nil
		}, 2},
		{"ipmi.GetSDRRsp", func() decoder { return &ipmi.GetSDRRsp{} }, func(d []byte) (ref.Fields, bool, error) {
			if len(d) < 2 {
				return nil, false, fmt.Errorf("short")
			}
			return ref.Fields{"Next": uint16(d[0]) | uint16(d[1])<<8}, false, nil
		}, 2},
		{"ipmi.GetChannelCipherSuitesRsp", func() decoder { return &ipmi.GetChannelCipherSuitesRsp{} }, func(d []byte) (ref.Fields, bool, error) {
			if len(d) < 1 {
				return nil, false, fmt.Errorf("short")
			}
			end := len(d)
			if end > 17 {
				end = 17
			}
			return ref.Fields{"Channel": d[0], "CipherSuiteRecordsChunk": append([]byte{}, d[1:end]...)}, d[0]&0xf0 != 0, nil
		}, 1},
		{"ipmi.OpenSessionRsp", func() decoder { return &ipmi.OpenSessionRsp{} }, func(d []byte) (ref.Fields, bool, error) {
			if len(d) < 8 {
				return nil, false, fmt.Errorf("short")
			}
			f := ref.Fields{"Tag": d[0], "Status": d[1]}
			if d[1] != 0 {
				return f, len(d) != 8, nil
			}
			if len(d) != 36 {
				return nil, false, fmt.Errorf("a successful response is 36 bytes")
			}
			f["MaxPrivilegeLevel"] = d[2]
			f["RemoteConsoleSessionID"] = uint32(d[4]) | uint32(d[5])<<8 | uint32(d[6])<<16 | uint32(d[7])<<24
			f["ManagedSystemSessionID"] = uint32(d[8]) | uint32(d[9])<<8 | uint32(d[10])<<16 | uint32(d[11])<<24
			reserved := d[2]&0xf0 != 0 || d[3] != 0
			for i, k := range []byte{0, 1, 2} {
				pl := d[12+8*i : 20+8*i]
				if pl[0] != k {
					return nil, false, fmt.Errorf("payload type")
				}
				if pl[1] != 0 || pl[2] != 0 || pl[3] != 8 || pl[4]&0xc0 != 0 || pl[5] != 0 || pl[6] != 0 || pl[7] != 0 {
					reserved = true
				}
			}
			f["AuthenticationPayload"] = fmt.Sprintf("{%v %d}", false, d[16]&0x3f)
			f["IntegrityPayload"] = fmt.Sprintf("{%v %d}", false, d[24]&0x3f)
			f["ConfidentialityPayload"] = fmt.Sprintf("{%v %d}", false, d[32]&0x3f)
			return f, reserved, nil
		}, 7},
		{"ipmi.RAKPMessage2", func() decoder { return &ipmi.RAKPMessage2{} }, func(d []byte) (ref.Fields, bool, error) {
			if len(d) < 8 {
				return nil, false, fmt.Errorf("short")
			}
			f := ref.Fields{"Tag": d[0], "Status": d[1], "RemoteConsoleSessionID": uint32(d[4]) | uint32(d[5])<<8 | uint32(d[6])<<16 | uint32(d[7])<<24}
			reserved := d[2] != 0 || d[3] != 0
			if d[1] != 0 {
				return f, reserved || len(d) != 8, nil
			}
			if len(d) < 40 {
				return nil, false, fmt.Errorf("short")
			}
			var rc, guid [16]byte
			copy(rc[:], d[8:24])
			copy(guid[:], d[24:40])
			f["ManagedSystemRandom"], f["ManagedSystemGUID"], f["AuthCode"] = rc, guid, append([]byte{}, d[40:]...)
			return f, reserved, nil
		}, 8},
		{"ipmi.RAKPMessage4", func() decoder { return &ipmi.RAKPMessage4{} }, func(d []byte) (ref.Fields, bool, error) {
			if len(d) < 8 {
				return nil, false, fmt.Errorf("short")
			}
			f := ref.Fields{"Tag": d[0], "Status": d[1], "RemoteConsoleSessionID": uint32(d[4]) | uint32(d[5])<<8 | uint32(d[6])<<16 | uint32(d[7])<<24}
			if d[1] == 0 {
				f["ICV"] = append([]byte{}, d[8:]...)
			} else {
				f["ICV"] = []byte{}
			}
			return f, d[2] != 0 || d[3] != 0 || (d[1] != 0 && len(d) != 8), nil
		}, 8},
	}
}

// canonNamed is canon with field names, for readable snapshots of whole layers.
func canonNamed(v reflect.Value) string {
	for v.Kind() == reflect.Ptr && !v.IsNil() {
		v = v.Elem()
	}
	if v.Kind() != reflect.Struct {
		return canon(v)
	}
	if v.CanInterface() {
		if _, ok := v.Interface().(time.Time); ok {
			return canon(v)
		}
	}
	parts := []string{}
	for i := 0; i < v.NumField(); i++ {
		f := v.Field(i)
		name := v.Type().Field(i).Name
		if f.Kind() == reflect.Struct {
			parts = append(parts, name+":"+canonNamed(f))
		} else {
			parts = append(parts, name+":"+canon(f))
		}
	}
	return "{" + strings.Join(parts, " ") + "}"
}

// canon renders a value independent of named types and String methods.
func canon(v reflect.Value) string {
	if !v.IsValid() {
		return "<invalid>"
	}
	if v.CanInterface() {
		switch x := v.Interface().(type) {
		case time.Time:
			return fmt.Sprintf("t%d", x.Unix())
		case net.IP:
			if x == nil {
				return "<nil>"
			}
			return x.String()
		case net.HardwareAddr:
			return x.String()
		}
	}
	switch v.Kind() {
	case reflect.Bool:
		return fmt.Sprint(v.Bool())
	case reflect.Uint8, reflect.Uint16, reflect.Uint32, reflect.Uint64, reflect.Uint:
		return fmt.Sprint(v.Uint())
	case reflect.Int8, reflect.Int16, reflect.Int32, reflect.Int64, reflect.Int:
		return fmt.Sprint(v.Int())
	case reflect.String:
		return v.String()
	case reflect.Slice, reflect.Array:
		parts := []string{}
		for i := 0; i < v.Len(); i++ {
			parts = append(parts, canon(v.Index(i)))
		}
		return "[" + strings.Join(parts, " ") + "]"
	case reflect.Struct:
		parts := []string{}
		for i := 0; i < v.NumField(); i++ {
			parts = append(parts, canon(v.Field(i)))
		}
		return "{" + strings.Join(parts, " ") + "}"
	case reflect.Ptr, reflect.Interface:
		if v.IsNil() {
			return "<nil>"
		}
		if v.Kind() == reflect.Interface {
			// hash.Hash, cipher.Block etc.: opaque state, not part of the decoded value
			return "<" + v.Elem().Type().String() + ">"
		}
		return canon(v.Elem())
	case reflect.Func, reflect.Chan, reflect.UnsafePointer, reflect.Map:
		return "<" + v.Kind().String() + ">"
	case reflect.Float32, reflect.Float64:
		return fmt.Sprint(v.Float())
	}
	return "<" + v.Kind().String() + ">"
}

// c07One decodes in with the library and compares every field the reference defines.
func c07One(l rspLayer, in []byte) (string, string) {
	want, reserved, rerr := l.Ref(in)
	lay := l.New()
	var err error
	data := append([]byte{}, in...)
	p := guard(func() { err = lay.DecodeFromBytes(data[:len(data):len(data)], gopacket.NilDecodeFeedback) })
	if p != "" {
		return "C07/" + l.Name + "/panic", p
	}
	if rerr != nil {
		// the input is not a valid encoding per the specification
		if l.Name == "ipmi.OpenSessionRsp" && len(in) == 1 {
			// documented leniency: some BMCs answer with the status byte alone
			return "", ""
		}
		if len(in) < l.Min && err == nil {
			return "C07/" + l.Name + "/short-body-accepted", fmt.Sprintf("a %d-byte body (minimum %d) was decoded without error: % x", len(in), l.Min, in)
		}
		if len(in) < l.Min {
			// the same through the decoder registered for the layer type (what
			// gopacket.NewPacket users such as the SDR walk see): no such layer
			if lt, pkt := c07Packet(lay, in); pkt != nil && pkt.Layer(lt) != nil {
				return "C07/" + l.Name + "/short-body-yields-a-layer-in-the-packet", fmt.Sprintf("gopacket.NewPacket on a %d-byte body (minimum %d) contains a %v layer: % x", len(in), l.Min, lt, in)
			}
		}
		return "", ""
	}
	if err != nil {
		if reserved {
			return "", ""
		}
		return "C07/" + l.Name + "/valid-encoding-rejected", fmt.Sprintf("decoding % x: %v", in, err)
	}
	if reserved {
		return "", "lenient"
	}
	if name, got, exp := compareFields(want, lay); name != "" {
		return "C07/" + l.Name + "/" + name, fmt.Sprintf("decoding % x: field %s = %s, the specification's encoding means %s", in, name, got, exp)
	}
	// the same through the decoder registered for the layer type
	if lt, pkt := c07Packet(lay, in); pkt != nil {
		pl := pkt.Layer(lt)
		if pl == nil {
			return "C07/" + l.Name + "/valid-encoding-yields-no-layer-in-the-packet", fmt.Sprintf("gopacket.NewPacket on % x has no %v layer (error layer: %v)", in, lt, pkt.ErrorLayer())
		}
		if name, got, exp := compareFields(want, pl); name != "" {
			return "C07/" + l.Name + "/" + name + "/packet", fmt.Sprintf("gopacket.NewPacket on % x: field %s = %s, the specification's encoding means %s", in, name, got, exp)
		}
	}
	// the same must hold whatever the value decoded before: decode into a value
	// that has just decoded each of the layer's other shapes
	for _, earlier := range c07Earlier(l.Name) {
		used := l.New()
		e := append([]byte{}, earlier...)
		if guard(func() { used.DecodeFromBytes(e, gopacket.NilDecodeFeedback) }) != "" {
			continue
		}
		d2 := append([]byte{}, in...)
		var err2 error
		if p := guard(func() { err2 = used.DecodeFromBytes(d2[:len(d2):len(d2)], gopacket.NilDecodeFeedback) }); p != "" {
			return "C07/" + l.Name + "/panic", p
		}
		if err2 != nil {
			return "C07/" + l.Name + "/valid-encoding-rejected-by-used-value", fmt.Sprintf("decoding % x into a value that had decoded % x: %v", in, earlier, err2)
		}
		if name, got, exp := compareFields(want, used); name != "" {
			return "C07/" + l.Name + "/" + name + "/used-value", fmt.Sprintf("decoding % x into a value that had decoded % x: field %s = %s, the specification's encoding means %s", in, earlier, name, got, exp)
		}
	}
	return "", ""
}

// c07Packet decodes in through gopacket.NewPacket starting at lay's layer
// type; nil if the layer is not a gopacket.Layer with a registered decoder.
func c07Packet(lay decoder, in []byte) (lt gopacket.LayerType, pkt gopacket.Packet) {
	gl, ok := lay.(gopacket.Layer)
	if !ok {
		return 0, nil
	}
	lt = gl.LayerType()
	if lt == gopacket.LayerTypeZero || lt == gopacket.LayerTypePayload {
		return lt, nil
	}
	if p := guard(func() {
		pkt = gopacket.NewPacket(append([]byte{}, in...), lt, gopacket.DecodeOptions{Lazy: false, NoCopy: true})
	}); p != "" {
		return lt, nil
	}
	if el := pkt.ErrorLayer(); el != nil && strings.Contains(el.Error().Error(), "no decoder") {
		return lt, nil
	}
	return lt, pkt
}

var c07EarlierCache map[string][][]byte

// c07Earlier: the shapes a value may have decoded before: every base encoding
// of the layer and the all-ones variant of the longest.
func c07Earlier(name string) [][]byte {
	if c07EarlierCache == nil {
		c07EarlierCache = map[string][][]byte{}
		for _, d := range decLayers() {
			var out [][]byte
			longest := 0
			for _, b := range d.Bases {
				out = append(out, b)
				if len(b) > longest {
					longest = len(b)
				}
			}
			if len(out) > 6 {
				out = out[:6]
			}
			out = append(out, pattern(longest, 0xFF, 0))
			c07EarlierCache[d.Name] = out
		}
	}
	return c07EarlierCache[name]
}

// compareFields compares every field the reference defines with the
// same-named field of the library's struct; returns the first difference.
func compareFields(want ref.Fields, lay any) (field, got, exp string) {
	rv := reflect.ValueOf(lay)
	for rv.Kind() == reflect.Ptr {
		rv = rv.Elem()
	}
	var names []string
	for k := range want {
		names = append(names, k)
	}
	sort.Strings(names)
	for _, name := range names {
		fv := rv.FieldByName(name)
		if !fv.IsValid() {
			return name, "<no such field>", "a field"
		}
		got, exp := canon(fv), canon(reflect.ValueOf(want[name]))
		if s, ok := want[name].(string); ok {
			exp = s
			if fv.Kind() != reflect.String {
				got = strings.TrimSpace(got)
			}
		}
		if got != exp {
			return name, got, exp
		}
	}
	return "", "", ""
}

// c07Reject: malformed messages and wrappers must be rejected.
func c07Reject(kind string, in []byte) (string, string) {
	switch kind {
	case "checksum":
		var m ipmi.Message
		var err error
		p := guard(func() { err = m.DecodeFromBytes(append([]byte{}, in...), gopacket.NilDecodeFeedback) })
		if p != "" {
			return "C07/reject/panic", p
		}
		if err == nil {
			return "C07/reject/bad-checksum-accepted", fmt.Sprintf("message % x with a wrong checksum was decoded", in)
		}
	case "wrapper-length":
		var s ipmi.V2Session
		var err error
		p := guard(func() { err = s.DecodeFromBytes(append([]byte{}, in...), gopacket.NilDecodeFeedback) })
		if p != "" {
			return "C07/reject/panic", p
		}
		if err == nil {
			return "C07/reject/wrapper-length-exceeds-data-accepted", fmt.Sprintf("wrapper % x whose length field exceeds the data was decoded", in)
		}
	}
	return "", ""
}

// c07ConnCase: a response with a normal completion code whose body is cut short
// of the layer's mandatory part, delivered through a connection (the route by
// which the library itself decodes response bodies).
type c07ConnCase struct {
	Cmd       string `json:"cmd"`
	InSession bool   `json:"in_session"`
	Cut       int    `json:"cut"`
}

var c07ConnCmds = []struct {
	name string
	min  int // mandatory response data bytes (IPMI v2.0 command tables)
	mk   func() ipmi.Command
}{
	{"GetDeviceID", 11, func() ipmi.Command { return &ipmi.GetDeviceIDCmd{} }},
	{"GetChassisStatus", 3, func() ipmi.Command { return &ipmi.GetChassisStatusCmd{} }},
	{"GetSystemGUID", 16, func() ipmi.Command { return &ipmi.GetSystemGUIDCmd{} }},
	{"GetChannelAuthenticationCapabilities", 8, func() ipmi.Command {
		return &ipmi.GetChannelAuthenticationCapabilitiesCmd{Req: ipmi.GetChannelAuthenticationCapabilitiesReq{ExtendedData: true, Channel: ipmi.ChannelPresentInterface, MaxPrivilegeLevel: ipmi.PrivilegeLevelAdministrator}}
	}},
	{"GetSDRRepositoryInfo", 14, func() ipmi.Command { return &ipmi.GetSDRRepositoryInfoCmd{} }},
	{"ReserveSDRRepository", 2, func() ipmi.Command { return &ipmi.ReserveSDRRepositoryCmd{} }},
}

func c07Conn(c c07ConnCase) (string, string) {
	w := newWorld(defaultConfig(), nil, nil)
	var conn bmc.Connection = w.Conn
	if c.InSession {
		s, err := w.Conn.NewV2Session(w.Ctx, &bmc.V2SessionOpts{SessionOpts: bmc.SessionOpts{Username: "c07", Password: w.BMC.Cfg.Password, MaxPrivilegeLevel: ipmi.PrivilegeLevelAdministrator}, CipherSuites: []ipmi.CipherSuite{ipmi.CipherSuite3}})
		if err != nil {
			return "C07/conn/harness", "no session: " + err.Error()
		}
		conn = s
	}
	var mk func() ipmi.Command
	for _, x := range c07ConnCmds {
		if x.name == c.Cmd {
			mk = x.mk
		}
	}
	sent := 0
	w.T.Menu = func(t *env.Transport, req []byte) []env.Answer {
		return []env.Answer{env.Raw("normal-code-short-body", func(t *env.Transport, rx *ref.Rx) []byte {
			sent++
			if rx == nil || rx.Msg == nil || sent > 20 {
				return t.BMC.Honest(rx)
			}
			body := rx.Body
			if c.Cut < len(body) {
				body = body[:c.Cut]
			}
			return t.BMC.Respond(rx, 0, body)
		})}
	}
	cmd := mk()
	var err error
	var code ipmi.CompletionCode
	if p := guard(func() { code, err = conn.SendCommand(w.Ctx, cmd) }); p != "" {
		return "C07/conn/panic/" + siteKey(p), fmt.Sprintf("%+v: panic: %s", c, p)
	}
	if err == nil {
		return "C07/conn/short-body-accepted/" + c.Cmd, fmt.Sprintf("%+v: the response carried completion code 0 and only %d data bytes; SendCommand returned (%v, nil) and response %+v", c, c.Cut, code, cmd.Response())
	}
	return "", ""
}

func runC07(r *rep.R) {
	r.SetRule("for each response layer every byte of every base encoding takes all 256 values (so every flag bit and multi-bit field is enumerated), multi-byte fields (M, B, accuracy: all 1024; exponents 16x16; tolerance 64) are enumerated in full, optional tails are present/absent/partial at every length, ID strings cover 4 encodings x every character count 0..31 x content alphabets; each input is decoded by the library and by an independent reference decoder written from the specification tables and all fields compared; inputs with reserved bits set are decoded but not judged; rejection: every wrong value of each checksum, wrapper length fields beyond the data, every body shorter than the layer minimum. distinct = distinct (layer, input)")
	var idx int64
	layersByName := map[string]rspLayer{}
	for _, l := range c07Layers() {
		layersByName[l.Name] = l
	}
	do := func(l rspLayer, in []byte) {
		idx++
		if !r.Mine(idx) {
			return
		}
		k, msg := c07One(l, in)
		r.Eval(rep.H(l.Name, in), msg != "lenient")
		switch {
		case k != "":
			r.Outcome("violation")
			r.Violate(k, msg, "c07", c07Case{Layer: l.Name, Input: in}, nil)
		case msg == "lenient":
			r.Outcome("reserved-bits-set:not-judged")
			r.Count("not-judged:"+l.Name, 1)
		default:
			r.Outcome("fields-equal-or-rejected")
			r.Count("judged:"+l.Name, 1)
			if r.WantSample() && idx%211 == 0 {
				r.Sample(map[string]any{"layer": l.Name, "input_hex": fmt.Sprintf("%x", in)})
			}
		}
	}
	reg := map[string]decLayer{}
	for _, d := range decLayers() {
		reg[d.Name] = d
	}
	for _, l := range c07Layers() {
		d := reg[l.Name]
		for _, base := range d.Bases {
			do(l, base)
			for n := 0; n <= len(base)+2; n++ {
				if n <= len(base) {
					do(l, base[:n])
				} else {
					do(l, cat(base, pattern(n-len(base), 0, 0)))
				}
			}
			for pos := range base {
				for v := 0; v < 256; v++ {
					m := append([]byte{}, base...)
					m[pos] = byte(v)
					do(l, m)
				}
			}
		}
	}
	// IPMI messages: every value of every non-checksum byte with both checksums
	// recomputed (so every network function, LUN, sequence, command, completion
	// code, body code and enterprise number byte is reached on a valid message)
	msgL := layersByName["ipmi.Message"]
	for _, mb := range reg["ipmi.Message"].Bases {
		for pos := 0; pos < len(mb)-1; pos++ {
			if pos == 2 {
				continue
			}
			for v := 0; v < 256; v++ {
				m := append([]byte{}, mb...)
				m[pos] = byte(v)
				m[2] = ref.Checksum(m[:2])
				m[len(m)-1] = ref.Checksum(m[3 : len(m)-1])
				do(msgL, m)
			}
		}
	}
	// Full Sensor Record: multi-byte fields in full
	fsr := layersByName["ipmi.FullSensorRecord"]
	base := fsrBody(0xC4, []byte("Temp"))
	for v := 0; v < 1024; v++ {
		for _, other := range []byte{0x00, 0x3F} {
			m := append([]byte{}, base...)
			m[19], m[20] = byte(v), byte(v>>8)<<6|other // M + tolerance
			do(fsr, m)
			m = append([]byte{}, base...)
			m[21], m[22] = byte(v), byte(v>>8)<<6|other // B + accuracy low bits
			do(fsr, m)
			m = append([]byte{}, base...)
			m[22], m[23] = other<<6|byte(v&0x3f), byte(v>>6)<<4|other&0x0f // accuracy
			do(fsr, m)
		}
	}
	for e := 0; e < 256; e++ {
		m := append([]byte{}, base...)
		m[24] = byte(e)
		do(fsr, m)
	}
	// ID strings: 4 encodings x every count 0..31 x contents, with and without trailing bytes
	for typ := 0; typ < 4; typ++ {
		for n := 0; n <= 31; n++ {
			for _, content := range [][2]byte{{0x00, 0}, {0xFF, 0}, {0x41, 1}, {0x20, 3}, {0x7F, 0}, {0x09, 0x11}} {
				var need int
				switch typ {
				case 1:
					need = (n + 1) / 2
				case 2:
					need = (n*6 + 7) / 8
				default:
					need = n
				}
				for _, extra := range []int{0, 1, 2, 5} {
					do(fsr, fsrBody(byte(typ)<<6|byte(n), pattern(need+extra, content[0], content[1])))
				}
				if need > 0 {
					do(fsr, fsrBody(byte(typ)<<6|byte(n), pattern(need-1, content[0], content[1])))
				}
			}
		}
	}
	// 8-bit strings whose high bytes happen to form well-formed UTF-8
	for _, content := range [][]byte{{0xC2, 0xB0, 'C'}, {'Z', 0xC3, 0xA9}, {0xE2, 0x82, 0xAC}, {0xF0, 0x9F, 0x98, 0x80}, {0xC2, 0xB0, 0xC2, 0xB5, 0xC3, 0xBC}, {'a', 0xC2, 0xA0, 'b', 0xDF, 0xBF}} {
		for _, typ := range []byte{3} {
			do(fsr, fsrBody(typ<<6|byte(len(content)), content))
			do(fsr, fsrBody(typ<<6|byte(len(content)), append(append([]byte{}, content...), 0x99, 0x98)))
		}
	}
	// rejection of malformed messages and wrappers
	doReject := func(kind string, in []byte) {
		idx++
		if !r.Mine(idx) {
			return
		}
		k, msg := c07Reject(kind, in)
		r.Eval(rep.H("reject", kind, in), true)
		if k != "" {
			r.Outcome("violation")
			r.Violate(k, msg, "c07", c07Case{Layer: "reject", Kind: kind, Input: in}, nil)
		} else {
			r.Outcome("malformed-rejected")
		}
	}
	for _, mb := range reg["ipmi.Message"].Bases {
		for _, pos := range []int{2, len(mb) - 1} {
			for v := 0; v < 256; v++ {
				if byte(v) == mb[pos] {
					continue
				}
				m := append([]byte{}, mb...)
				m[pos] = byte(v)
				doReject("checksum", m)
			}
		}
	}
	// both checksums wrong in ways that cancel in a sum over the whole message
	for _, mb := range reg["ipmi.Message"].Bases {
		for d := 1; d < 256; d++ {
			m := append([]byte{}, mb...)
			m[2] += byte(d)
			m[len(m)-1] -= byte(d)
			doReject("checksum", m)
			// a damaged header byte whose error the *other* checksum absorbs
			m = append([]byte{}, mb...)
			m[1] += byte(d)
			m[len(m)-1] -= byte(d)
			doReject("checksum", m)
			m = append([]byte{}, mb...)
			m[4] += byte(d)
			m[2] -= byte(d)
			doReject("checksum", m)
		}
	}
	for _, wb := range append(reg["ipmi.V2Session"].Bases, reg["ipmi.V2Session(authenticated)"].Bases...) {
		off := 10
		if wb[1]&0x3f == 0x02 {
			off = 16
		}
		actual := int(wb[off]) | int(wb[off+1])<<8
		if wb[1]&0x40 != 0 {
			continue // with a trailer present a longer length field eats trailer bytes; covered by the unauthenticated bases
		}
		for _, l := range []int{actual + 1, actual + 2, actual + 3, actual + 255, 0x7FFF, 0xFFFF} {
			m := append([]byte{}, wb...)
			m[off], m[off+1] = byte(l), byte(l>>8)
			doReject("wrapper-length", m)
		}
	}
	for _, x := range c07ConnCmds {
		for _, in := range []bool{false, true} {
			for cut := 0; cut < x.min; cut++ {
				c := c07ConnCase{Cmd: x.name, InSession: in, Cut: cut}
				idx++
				if !r.Mine(idx) {
					continue
				}
				k, msg := c07Conn(c)
				r.Eval(rep.H("conn", fmt.Sprintf("%+v", c)), true)
				if k != "" {
					r.Outcome("violation")
					r.Violate(k, msg, "c07conn", c, func() bool { k2, _ := c07Conn(c); return k2 == k })
				} else {
					r.Outcome("short-body-through-a-connection:error")
				}
			}
		}
	}
	r.Assume("reference decoders in harness/ref/codec.go are written from the IPMI v2.0 / DCMI 1.5 table layouts; where the repository documents a deliberate reading of an ambiguous table (PerMessageAuthentication polarity, DCMI SEL attribute byte order, 'unicode' strings read as 8-bit) the reference follows it")
	r.Assume("encodings with reserved bits set are not the specification's encoding of any value and are decoded but not judged")
}
