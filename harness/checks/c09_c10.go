package checks

import (
	"context"
	"encoding/json"
	"fmt"
	"github.com/cenkalti/backoff/v4"
	"github.com/gebn/bmc"
	"github.com/gebn/bmc/pkg/ipmi"
	"strings"
	"time"

	"verif/env"
	"verif/ref"
	"verif/rep"
)

// C09 (sequence numbers), C10 (retry contract) and the history part of C03
// share one exploration: all command histories up to depth D over the command
// alphabet x all per-attempt outcome vectors with at most k deviations.

func init() {
	register(&Check{ID: "C09", Run: func(r *rep.R) { runHist(r, "C09") }, Shards: 16, MinOutcomes: 4})
	register(&Check{ID: "C10", Run: func(r *rep.R) { runHist(r, "C10") }, Shards: 16, MinOutcomes: 4})
	Replayers["c10persistreal"] = func(raw json.RawMessage) (string, bool) {
		var c map[string]string
		json.Unmarshal(raw, &c)
		k, msg := c10PersistReal(c["call"])
		return fmt.Sprintf("%s %s", k, msg), k != ""
	}
	Replayers["c10persist"] = func(raw json.RawMessage) (string, bool) {
		var c c10PersistCase
		json.Unmarshal(raw, &c)
		k, msg := c10Persist(c)
		return fmt.Sprintf("%s %s", k, msg), k != ""
	}
	Replayers["hist"] = func(raw json.RawMessage) (string, bool) {
		var c histReplay
		json.Unmarshal(raw, &c)
		o := runHistory(c.Cfg, &env.Chooser{Prefix: c.Choices})
		vs := histJudge(c.Prop, c.Cfg, o)
		for _, v := range vs {
			if v.key == c.Key {
				return fmt.Sprintf("%s reproduces: %s", v.key, v.msg), true
			}
		}
		return fmt.Sprintf("key %s not reproduced; got %d other findings", c.Key, len(vs)), false
	}
}

type histReplay struct {
	Prop    string     `json:"prop"`
	Key     string     `json:"key"`
	Cfg     histCfg    `json:"cfg"`
	Choices []int      `json:"choices"`
	Ops     []string   `json:"ops"`
	Answers [][]string `json:"answers"`
}

type finding struct{ key, msg string }

func opHasRsp(op histOp) bool {
	if op.Close {
		return false
	}
	return op.New().Response() != nil
}

// histJudge applies the oracles of property prop to one execution.
func histJudge(prop string, cfg histCfg, o *histObs) []finding {
	if j, ok := histJudges[prop]; ok {
		return j(cfg, o)
	}
	var out []finding
	add := func(key, f string, a ...any) { out = append(out, finding{prop + "/" + key, fmt.Sprintf(f, a...)}) }
	mode := "sessionless"
	if cfg.InSession {
		mode = "insession"
	}
	log := o.W.T.Log
	if prop == "C10" && o.W.T.DeadCtxSends > 0 {
		add("retry-on-used-up-attempt-context", "%d transmissions were attempted with a per-attempt context whose deadline had already passed in an earlier attempt (a real socket refuses them, so the retry never reaches the BMC)", o.W.T.DeadCtxSends)
	}
	if cfg.HSAlphabet != "" && prop == "C10" {
		free := false // an answer after which the text leaves the outcome open
		for k, cl := range o.HS.Classes {
			if cl == clsExpire || o.HS.Answers[k] == "truncated-payload" {
				free = true
			}
		}
		if o.HS.Panic != "" {
			add("handshake/panic/"+siteKey(o.HS.Panic), "handshake panicked under answers %v: %s", o.HS.Answers, o.HS.Panic)
		}
		first := map[byte][]byte{}
		for i := 0; i < o.HandshakeExchanges && i < len(log); i++ {
			ex := log[i]
			if ex.CtxDone || len(ex.Req) < 6 {
				continue
			}
			pt := ex.Req[5] & 0x3f
			if pt == ref.PTIPMI {
				continue // discovery commands: covered by the session-less driver
			}
			if f, ok := first[pt]; !ok {
				first[pt] = ex.Req
			} else if string(f) != string(ex.Req) {
				add("handshake/retransmission-differs", "payload type %#02x: retransmission % x differs from the first transmission % x", pt, ex.Req, f)
			}
			rx := ex.Rx
			if rx == nil {
				rx = sideParse(ex.Req)
				rx.Problems = nil // unknown session on the side parser is expected
				if rx.Pkt == nil {
					rx.Problems = []string{"unparseable"}
				}
			}
			if len(rx.Problems) > 0 {
				add("handshake/malformed-transmission", "handshake datagram %d (answers so far %v): %s", i, o.HS.Answers, strings.Join(rx.Problems, "; "))
			}
		}
		if o.SessOK && !o.KeysOK {
			add("handshake/session-with-wrong-keys", "answers %v", o.HS.Answers)
		}
		if !o.SessOK && !free {
			add("handshake/gave-up/"+lastClass(o.HS.Classes), "answers %v never contained a final failure, yet no session was returned: %s", o.HS.Answers, o.HandshakeErr)
		}
		if !o.SessOK {
			return out
		}
	} else if o.HandshakeErr != "" {
		if cfg.HSAlphabet == "" {
			add("handshake", "handshake failed: %s", o.HandshakeErr)
		}
		return out
	}
	// ---- sequence numbers (C09) over all transmitted datagrams
	if prop == "C09" {
		var expect uint32
		for i, ex := range log {
			if ex.CtxDone {
				continue
			}
			p, err := ref.ParsePacket(ex.Req, authLenOf(o, ex.Req))
			if err != nil {
				add(mode+"/unparseable-datagram", "datagram %d: %v", i, err)
				continue
			}
			if i < o.HandshakeExchanges || !cfg.InSession {
				if p.SID != 0 || p.Seq != 0 {
					add(mode+"/sessionless-nonzero", "datagram %d outside a session carries session ID %#x sequence %d", i, p.SID, p.Seq)
				}
				continue
			}
			expect++
			if p.SID != o.SessRemoteID {
				add(mode+"/wrong-session-id/"+prevAnswerClass(o, cfg, i), "datagram %d carries session ID %#x, the BMC's is %#x", i, p.SID, o.SessRemoteID)
				continue
			}
			if p.Seq != expect {
				add(mode+"/sequence/"+serialiseClass(cfg)+"/"+prevAnswerClass(o, cfg, i), "datagram %d (op %d attempt %d) has session sequence number %d, expected %d (one per transmitted datagram, starting at 1)", i, ex.Op, ex.Attempt, p.Seq, expect)
				expect = p.Seq
			}
		}
		if cfg.InSession && o.SeqAfter != expect {
			add(mode+"/counter-ahead/"+serialiseClass(cfg), "console counter is %d after the history but %d datagrams were transmitted", o.SeqAfter, expect)
		}
		return out
	}
	// ---- retry contract (C10) and request identity
	for pos, oi := range cfg.Ops {
		op := histOps[oi]
		r := o.Results[pos]
		if r.Panic != "" {
			add(mode+"/panic/"+siteKey(r.Panic), "op %d %s panicked: %s", pos, op.Name, r.Panic)
			continue
		}
		nTx := 0
		for k := r.First; k < r.Last; k++ {
			if !log[k].CtxDone {
				nTx++
			}
		}
		if op.NoSerialise {
			if nTx != 0 || r.ErrNil {
				add(mode+"/unserialisable", "%s: %d datagrams transmitted, error nil=%v", op.Name, nTx, r.ErrNil)
			}
			continue
		}
		// reference model over the answers the environment gave
		term := -1
		var wantErrNil bool
		var wantCode byte
		haveCode := false
		for k, cl := range r.Classes {
			done := false
			switch cl {
			case clsFinal:
				done = true
				ex := log[r.First+k]
				wantCode = 0
				if ex.Rx != nil {
					wantCode = ex.Rx.CC
				}
				name := r.Answers[k]
				if name == "final-c1" {
					wantCode = 0xC1
				}
				if strings.HasPrefix(name, "code-") {
					fmt.Sscanf(name, "code-%02x", &wantCode)
				}
				haveCode = true
				bodyIntact := name == "ok" || name == "ok(horizon)" || strings.HasPrefix(name, "ok-")
				wantErrNil = bodyIntact || !opHasRsp(op)
				if bodyIntact && wantCode != 0 && opHasRsp(op) {
					wantErrNil = false // the BMC's own error reply has no body
				}
			case clsNothing:
				if cfg.InSession {
					done = true
					wantErrNil = false
				}
			case clsExpire:
				done = true
				wantErrNil = false
			}
			if done {
				term = k
				break
			}
		}
		pattern := strings.Join(classNames(r.Classes), ",")
		switch {
		case term < 0:
			add(mode+"/gave-up-without-final-answer/"+lastClass(r.Classes), "%s: answers %v never gave a final answer, yet the call returned (code %#02x err %q) after %d transmissions", op.Name, r.Answers, r.Code, r.Err, nTx)
			continue
		case term != len(r.Classes)-1:
			add(mode+"/transmitted-after-final/"+classNames(r.Classes[term : term+1])[0], "%s: answers %v: %d further transmissions after the terminal answer %q", op.Name, r.Answers, len(r.Classes)-1-term, r.Answers[term])
		}
		if nTx != len(r.Classes) {
			add(mode+"/transmission-count", "%s: %d datagrams transmitted for %d answers", op.Name, nTx, len(r.Classes))
		}
		if op.Close {
			wantErrNil = wantErrNil && haveCode && wantCode == 0
			if r.ErrNil != wantErrNil {
				add(mode+"/close-result", "Close with answers %v: error nil=%v, model says %v", r.Answers, r.ErrNil, wantErrNil)
			}
		} else {
			if r.ErrNil != wantErrNil {
				add(mode+"/result-error/"+pattern, "%s with answers %v: error %q, model says nil=%v", op.Name, r.Answers, r.Err, wantErrNil)
			}
			if haveCode && r.Code != wantCode && (r.ErrNil || opHasRsp(op)) {
				add(mode+"/result-code/"+pattern, "%s with answers %v: completion code %#02x, the first final reply carried %#02x", op.Name, r.Answers, r.Code, wantCode)
			}
		}
		// every transmission is the caller's command, well-formed
		for k := r.First; k < r.Last; k++ {
			ex := log[k]
			if ex.CtxDone {
				continue
			}
			rx := ex.Rx
			if rx == nil {
				// never reached the BMC: parse it on the side
				rx = sideParse(ex.Req)
			}
			if id := expectIdentity(op, rx, o.SessRemoteID); id != "" {
				add(mode+"/retransmission-not-the-command/"+prevAnswerClass(o, cfg, k), "%s transmission %d (after answers %v): %s", op.Name, k-r.First+1, r.Answers[:min(k-r.First, len(r.Answers))], id)
				continue
			}
			var probs []string
			for _, p := range rx.Problems {
				if strings.Contains(p, "sequence number") {
					continue
				}
				if cfg.Suite.Integ == 0 && (strings.Contains(p, "authenticated flag") || strings.Contains(p, "encrypted flag")) {
					continue // with integrity None the flags the library sets are not judged (C01)
				}
				probs = append(probs, p)
			}
			if len(probs) > 0 {
				add(mode+"/retransmission-malformed/"+prevAnswerClass(o, cfg, k), "%s transmission %d: %s", op.Name, k-r.First+1, strings.Join(probs, "; "))
			}
		}
	}
	return out
}

func sideParse(req []byte) *ref.Rx {
	b := ref.NewBMC(ref.Config{})
	return b.Receive(req)
}

func authLenOf(o *histObs, req []byte) int {
	if o.BS != nil && len(req) > 5 && req[5]&0x40 != 0 {
		return o.BS.IntegN
	}
	return 0
}

func classNames(cs []ansClass) []string {
	names := []string{"final", "temporary", "undecodable", "nothing", "expire"}
	var out []string
	for _, c := range cs {
		out = append(out, names[c])
	}
	return out
}

func lastClass(cs []ansClass) string {
	if len(cs) == 0 {
		return "none"
	}
	return classNames(cs[len(cs)-1:])[0]
}

// prevAnswerClass names the class of the answer given to the transmission
// before log index i within the same operation ("first" if none).
func prevAnswerClass(o *histObs, cfg histCfg, i int) string {
	for pos := range cfg.Ops {
		r := o.Results[pos]
		if i >= r.First && i < r.Last {
			k := i - r.First
			if k == 0 {
				return "first-transmission"
			}
			if k-1 < len(r.Classes) {
				return "after-" + classNames(r.Classes[k-1 : k])[0]
			}
		}
	}
	return "handshake"
}

func serialiseClass(cfg histCfg) string {
	for _, oi := range cfg.Ops {
		if histOps[oi].NoSerialise {
			return "after-unserialisable-request"
		}
	}
	return "plain"
}

func runHist(r *rep.R, prop string) {
	D, A, K := 2, 3, 2
	alphabet := []int{opGetDeviceID, opChassisControl, opGetSDR, opSetPriv, opPowerReading, opUnserialisable, opSensorReading}
	if thorough(r) {
		D, A, K = 3, 4, 2
	}
	r.SetRule(fmt.Sprintf("a case is one execution: a command history of length <= D over a %d-command alphabet (no body / request body / both / unserialisable / group NetFn, + Close) run on the real connection or session, with a vector of per-attempt environment answers from {ok, final code, node busy, timeout code, 2 kinds of garbage, truncated body, lost reply, bad signature | lost request, context expiry}; every vector with <= K deviations from 'ok' is enumerated up to A answers per call; distinct = distinct (history, choice vector)", len(alphabet)))
	r.Bound("history_depth_D", D)
	r.Bound("attempt_horizon_A", A)
	r.Bound("deviations_K", K)
	if thorough(r) {
		r.Bound("deviations_K_depth<=2", 3)
	}
	var idx int64
	suites := []ref.Suite{{1, 1, 1}}
	if thorough(r) {
		suites = append(suites, ref.Suite{3, 4, 1}, ref.Suite{2, 2, 1})
	}
	var hists [][]int
	var gen func(cur []int)
	gen = func(cur []int) {
		if len(cur) > 0 {
			hists = append(hists, append([]int{}, cur...))
		}
		if len(cur) == D {
			return
		}
		for _, a := range alphabet {
			gen(append(cur, a))
		}
	}
	gen(nil)
	for _, inSess := range []bool{true, false} {
		for si, s := range suites {
			if !inSess && si > 0 {
				continue
			}
			for _, h := range hists {
				if !inSess && containsOp(h, opUnserialisable) && len(h) > 2 {
					continue
				}
				ops := h
				if inSess {
					ops = append(append([]int{}, h...), opClose)
				}
				cfg := histCfg{Suite: s, InSession: inSess, Ops: ops, Horizon: A, Alphabet: "retry"}
				kk := K
				if thorough(r) && len(h) <= 2 && si == 0 {
					kk = 3 // three deviations on the shorter histories
				}
				histExplore(r, prop, cfg, kk, &idx)
			}
		}
	}
	// every completion code as the final answer, after nothing / a temporary code
	for _, inSess := range []bool{true, false} {
		for _, op := range []int{opGetDeviceID, opChassisControl} {
			ops := []int{op}
			if inSess {
				ops = append(ops, opClose)
			}
			cfg := histCfg{Suite: suites[0], InSession: inSess, Ops: ops, Horizon: 2, Alphabet: "codes", MenuOps: []int{0}}
			histExplore(r, prop, cfg, 1, &idx)
		}
	}
	// handshake payloads (and discovery) under the same kind of answers
	for _, s := range suites {
		for _, disc := range []bool{false, true} {
			cfg := histCfg{Suite: s, InSession: true, Ops: []int{opGetDeviceID, opClose}, Horizon: A, Alphabet: "", HSAlphabet: "handshake", Discover: disc}
			histExplore(r, prop, cfg, K+1, &idx)
		}
	}
	if prop == "C10" {
		// persistence under the library's own default back-off
		for _, call := range []string{"sessionless-command", "new-session", "retrieve-cipher-suites", "session-command", "session-close"} {
			for _, pat := range []string{"black-hole", "garbage", "temporary-code"} {
				if (call == "session-command" || call == "session-close") && pat == "black-hole" {
					continue // in-session transport failure is terminal by contract
				}
				if call == "new-session" && pat == "temporary-code" {
					continue // setup payloads have no completion code
				}
				for _, d := range []int{5, 30, 300, 840, 960, 1800, 3600, 10800} {
					idx++
					if !r.Mine(idx) {
						continue
					}
					c := c10PersistCase{Call: call, Pattern: pat, DeadS: d}
					k, msg := c10Persist(c)
					r.Eval(rep.H("persist", fmt.Sprint(c)), true)
					r.Trace()
					if k != "" {
						r.Outcome("violation")
						r.Violate(k, msg, "c10persist", c, nil)
					} else {
						r.Outcome("persist:retried-until-the-context-expired")
					}
				}
			}
		}
	}
	if prop == "C10" {
		for _, call := range []string{"sessionless-command", "session-command", "session-close"} {
			idx++
			if !r.Mine(idx) {
				continue
			}
			k, msg := c10PersistReal(call)
			r.Eval(rep.H("persist-real", call), true)
			r.Trace()
			if k != "" {
				// real timers: only what repeats
				if k2, _ := c10PersistReal(call); k2 != k {
					r.Count("real_socket_mismatch_not_reproduced", 1)
					continue
				}
				r.Outcome("violation")
				r.Violate(k, msg, "c10persistreal", map[string]string{"call": call}, nil)
			} else {
				r.Outcome("persist:retried-until-the-context-expired")
			}
		}
	}
	// the same kind of exploration over the library's real transport and a
	// loopback socket, compared execution by execution with the in-memory model
	for _, inSess := range []bool{true, false} {
		for _, op := range alphabet {
			hs := [][]int{{op}}
			if thorough(r) {
				for _, op2 := range []int{opGetDeviceID, opPowerReading} {
					hs = append(hs, []int{op, op2})
				}
			}
			for _, h := range hs {
				ops := h
				if inSess {
					ops = append(append([]int{}, h...), opClose)
				}
				histConform(r, prop, histCfg{Suite: suites[0], InSession: inSess, Ops: ops, Horizon: 2, Alphabet: "retry"}, 2, &idx)
			}
		}
	}
	histConform(r, prop, histCfg{Suite: suites[0], InSession: true, Ops: []int{opGetDeviceID, opClose}, Horizon: 2, HSAlphabet: "handshake", Discover: true}, 1, &idx)
	// structured long histories: 24 commands cycling the alphabet, one
	// deviation at each position in turn
	long := make([]int, 0, 24)
	for i := 0; i < 24; i++ {
		long = append(long, alphabet[i%len(alphabet)])
	}
	histExplore(r, prop, histCfg{Suite: suites[0], InSession: true, Ops: append(long, opClose), Horizon: 2, Alphabet: "retry"}, 1, &idx)
	// values the BMC chooses: session IDs with the top bit set / a zero byte, its
	// own sequence numbering far ahead of or about to wrap past the console's;
	// and a suite without integrity but with confidentiality
	for _, sidv := range []uint32{0x80000001, 0xFFFFFFFF, 0x00000100, 0x7FFFFFFF} {
		for _, out := range []uint32{0, 0x1000, 0xFFFFFFF0, 0xFFFFFFFD} {
			for _, op := range []int{opGetDeviceID, opSensorReading} {
				cfg := histCfg{Suite: suites[0], InSession: true, Ops: []int{op, op, opClose}, Horizon: 2, Alphabet: "retry", BMCSID: sidv, BMCOutSeq: out}
				histExplore(r, prop, cfg, 1, &idx)
			}
		}
	}
	for _, op := range []int{opGetDeviceID, opPowerReading} {
		histExplore(r, prop, histCfg{Suite: ref.Suite{Auth: 1, Integ: 0, Conf: 1}, InSession: true, Ops: []int{op, op, opClose}, Horizon: 2, Alphabet: "retry"}, 1, &idx)
	}
	// very long sessions (counters crossing 2^6, 2^8, 2^10 and, thorough, 2^16):
	// every datagram in turn, no deviations
	nLong := 1100
	if thorough(r) {
		nLong = 66000
	}
	if prop == "C09" {
		vlong := make([]int, 0, nLong+1)
		for i := 0; i < nLong; i++ {
			vlong = append(vlong, []int{opGetDeviceID, opChassisControl, opPowerReading, opSensorReading}[i%4])
		}
		histExplore(r, prop, histCfg{Suite: suites[0], InSession: true, Ops: append(vlong, opClose), Horizon: 1, Alphabet: "retry", StopOnError: true}, 0, &idx)
		r.Bound("longest_session_commands", nLong)
	}
	r.Assume("after an operation whose context expired the caller continues with a fresh context")
	r.Assume("C10 reference model (DESIGN A.2): retry on temporary codes and undecodable replies; first valid reply with another code is final; session-less lost replies are retried; in-session transport failure is terminal")
}

func containsOp(h []int, op int) bool {
	for _, x := range h {
		if x == op {
			return true
		}
	}
	return false
}

func histExplore(r *rep.R, prop string, cfg histCfg, bound int, idx *int64) {
	tag := fmt.Sprintf("%s/%v/%v/%v/%s/%d/%s/%v/%x/%x", prop, cfg.Suite, cfg.InSession, cfg.Ops, cfg.Alphabet, cfg.Horizon, cfg.HSAlphabet, cfg.Discover, cfg.BMCSID, cfg.BMCOutSeq)
	e := &env.Explorer{R: r, Bound: bound, Scenario: tag, Idx: idx,
		Run: func(ch *env.Chooser) any { return runHistory(cfg, ch) },
	}
	e.Check = func(ch *env.Chooser, obs any) {
		o := obs.(*histObs)
		cfg := cfg
		if o.Truncated > 0 {
			cfg.Ops = cfg.Ops[:o.Truncated]
		}
		fs := histJudge(prop, cfg, o)
		if len(fs) == 0 {
			r.Outcome(histOutcome(o))
			if r.WantSample() && len(ch.Choices) > 0 && env.Deviations(ch.Choices) > 0 {
				r.Sample(histSample(cfg, ch, o))
			}
			return
		}
		r.Outcome("violation")
		choices := append([]int{}, ch.Choices...)
		for _, f := range fs {
			f := f
			rp := histSample(cfg, ch, o)
			rp.Prop, rp.Key = prop, f.key
			r.Violate(f.key, f.msg, "hist", rp, func() bool {
				for _, g := range histJudge(prop, cfg, runHistory(cfg, &env.Chooser{Prefix: choices})) {
					if g.key == f.key {
						return true
					}
				}
				return false
			})
		}
	}
	e.Explore()
}

// c10PersistCase: a call whose every attempt fails in a retryable way, made on
// a connection that keeps the library's own default back-off, with a long
// context: the library must keep trying until the context expires.
type c10PersistCase struct {
	Call    string `json:"call"`
	Pattern string `json:"pattern"`
	DeadS   int    `json:"dead_s"`
}

func c10Persist(c c10PersistCase) (string, string) {
	cfg := c13Config()
	clock := &env.Clock{Deadline: time.Duration(c.DeadS) * time.Second}
	w := newWorld(cfg, nil, nil)
	// the connection as DialV2 builds it: per-attempt timeout 1 s, default back-off
	w.Conn = bmc.NewV2SessionlessTransportVerif(w.T, time.Second, nil)
	w.T.Timeout = time.Second
	w.T.MaxAttempts = 20000
	var sess *bmc.V2Session
	if c.Call == "session-command" || c.Call == "session-close" {
		s, err := w.Conn.NewV2Session(w.Ctx, &bmc.V2SessionOpts{SessionOpts: bmc.SessionOpts{Username: "c10", Password: cfg.Password, MaxPrivilegeLevel: ipmi.PrivilegeLevelUser}, CipherSuites: []ipmi.CipherSuite{ipmi.CipherSuite3}})
		if err != nil {
			return "C10/persist/harness", err.Error()
		}
		sess = s
	}
	// virtual time starts with the call under test
	w.T.Clock = clock
	w.Clock = clock
	w.Ctx, w.Cancel = newCtx()
	clock.Cancel = w.Cancel
	backoff.VerifSleep = w.T.Sleep
	backoff.VerifNow = clock.Time
	defer func() { backoff.VerifNow = nil }()
	w.T.Menu = func(t *env.Transport, req []byte) []env.Answer { return []env.Answer{c13Answer(c.Pattern)} }
	var err error
	p := guard(func() {
		switch c.Call {
		case "sessionless-command":
			_, err = w.Conn.GetSystemGUID(w.Ctx)
		case "new-session":
			_, err = w.Conn.NewV2Session(w.Ctx, &bmc.V2SessionOpts{SessionOpts: bmc.SessionOpts{Username: "c10", Password: cfg.Password, MaxPrivilegeLevel: ipmi.PrivilegeLevelUser}, CipherSuites: []ipmi.CipherSuite{ipmi.CipherSuite3}})
		case "retrieve-cipher-suites":
			_, err = bmc.RetrieveSupportedCipherSuites(w.Ctx, w.Conn)
		case "session-command":
			_, err = sess.GetDeviceID(w.Ctx)
		case "session-close":
			err = sess.Close(w.Ctx)
		}
	})
	what := fmt.Sprintf("%s, every attempt answered with %q, context deadline %d s of virtual time (lost reply = 1 s, back-off sleeps as requested)", c.Call, c.Pattern, c.DeadS)
	if p != "" {
		return "C10/persist/panic", what + ": " + p
	}
	if err == nil {
		return "C10/persist/success-without-valid-response", what
	}
	if !clock.Expired {
		return "C10/persist/gave-up-while-the-context-was-alive/" + c.Call, fmt.Sprintf("%s: the call returned %q after %v of virtual time and %d transmissions, with the caller's context still alive", what, err, clock.Now, len(w.T.Log))
	}
	return "", ""
}

// c10PersistReal: the same persistence question over real sockets and real
// timers (per-attempt timeout 150 ms, caller's deadline 2.5 s, the stock
// exponential back-off): while every attempt is answered "node busy" the call
// must still be trying a second into it. Only a return well before
// the deadline is judged (a late one is C13's business), so load can only make
// this check more lenient.
func c10PersistReal(call string) (string, string) {
	backoff.VerifSleep, backoff.VerifNow = nil, nil
	u, err := newUDPBMC(c13Config())
	if err != nil {
		return "C10/persist/harness", err.Error()
	}
	defer u.close()
	conn, err := bmc.DialV2(u.addr(), bmc.WithTimeout(150*time.Millisecond))
	if err != nil {
		return "C10/persist/harness", err.Error()
	}
	defer conn.Close()
	var sess *bmc.V2Session
	if call != "sessionless-command" {
		if sess, err = conn.NewV2Session(context.Background(), &bmc.V2SessionOpts{SessionOpts: bmc.SessionOpts{Username: "c10", Password: u.bmc.Cfg.Password, MaxPrivilegeLevel: ipmi.PrivilegeLevelUser}, CipherSuites: []ipmi.CipherSuite{ipmi.CipherSuite3}}); err != nil {
			return "C10/persist/harness", err.Error()
		}
	}
	u.mu.Lock()
	u.started, u.sendNo, u.c = true, 0, c13Case{Pattern: "temporary-code", Step: 0}
	u.mu.Unlock()
	ctx, cancel := context.WithTimeout(context.Background(), 2500*time.Millisecond)
	defer cancel()
	start := time.Now()
	switch call {
	case "sessionless-command":
		_, err = conn.GetSystemGUID(ctx)
	case "session-command":
		_, err = sess.GetDeviceID(ctx)
	case "session-close":
		err = sess.Close(ctx)
	}
	took := time.Since(start)
	if err == nil {
		return "C10/persist/success-without-valid-response", fmt.Sprintf("[real sockets] %s answered node busy on every attempt returned nil after %v", call, took)
	}
	// 1 s, not more: an implementation that stops as soon as its next back-off
	// sleep would cross the deadline can legitimately return from about 1.19 s
	// on (sleeps of at least 0.25, 0.375 and 0.56 s, then one of up to 2.5 s)
	if took < 1000*time.Millisecond {
		return "C10/persist/gave-up-while-the-context-was-alive/" + call, fmt.Sprintf("[real sockets] %s answered node busy on every attempt (per-attempt timeout 150 ms, stock back-off) returned %q after %v, with a second and a half of its 2.5 s deadline still ahead", call, err, took)
	}
	return "", ""
}

// histConform explores cfg over the library's real transport and a loopback
// socket (the same environment, chooser and answer menus: env.UDPFront). Each
// execution is judged by the property's oracles and compared with the
// execution of the same choice vector over the in-memory transport: the
// datagrams the BMC received and the callers' results must be identical. This
// binds the in-memory socket model, on which the deep explorations run, to
// internal/pkg/transport.
func histConform(r *rep.R, prop string, cfg histCfg, bound int, idx *int64) {
	cfg.UDP = true
	mem := cfg
	mem.UDP = false
	tag := fmt.Sprintf("%s/udp/%v/%v/%v/%s/%d/%s/%v", prop, cfg.Suite, cfg.InSession, cfg.Ops, cfg.Alphabet, cfg.Horizon, cfg.HSAlphabet, cfg.Discover)
	judge := func(choices []int) ([]finding, *histObs) {
		o := runHistory(cfg, &env.Chooser{Prefix: choices})
		if o.Infra != "" {
			return nil, o
		}
		fs := histJudge(prop, cfg, o)
		m := runHistory(mem, &env.Chooser{Prefix: choices})
		if d := histDiff(o, m); d != "" {
			fs = append(fs, finding{prop + "/real-transport-differs-from-in-memory-model", d})
		}
		if o.W != nil && o.W.Runaway != "" {
			fs = append(fs, finding{prop + "/real-transport/retry-loop-does-not-end", o.W.Runaway})
		}
		return fs, o
	}
	e := &env.Explorer{R: r, Bound: bound, Scenario: tag, Idx: idx,
		Run:  func(ch *env.Chooser) any { return runHistory(cfg, ch) },
		Stop: func() bool { return udpStop },
		// the end of the caller's context is an asynchronous event for a real
		// socket: whether it lands before or after the library has read a
		// datagram that was already waiting is a matter of timing, so such
		// executions have no single expected outcome and are left to the
		// in-memory exploration (where the model fixes the order)
		Filter: func(x *env.Chooser, i, alt int) bool {
			n := x.Points[i].Menu[alt]
			// (and a socket error cannot be provoked on a loopback socket at will)
			return n != "context-expires" && !strings.Contains(n, "context-ends") && !strings.HasPrefix(n, "socket-error")
		},
	}
	e.Check = func(ch *env.Chooser, obs any) {
		o := obs.(*histObs)
		if o.Infra != "" {
			r.Infra("loopback socket: %s", o.Infra)
			return
		}
		choices := append([]int{}, ch.Choices...)
		fs := histJudge(prop, cfg, o)
		m := runHistory(mem, &env.Chooser{Prefix: choices})
		if d := histDiff(o, m); d != "" {
			fs = append(fs, finding{prop + "/real-transport-differs-from-in-memory-model", d})
		}
		if o.W != nil && o.W.Runaway != "" {
			fs = append(fs, finding{prop + "/real-transport/retry-loop-does-not-end", o.W.Runaway})
		}
		if len(fs) == 0 {
			r.Outcome("udp:" + histOutcome(o))
			return
		}
		// real timers: report only what repeats on two further runs
		seen := map[string]int{}
		for i := 0; i < 2; i++ {
			gs, _ := judge(choices)
			once := map[string]bool{}
			for _, g := range gs {
				if !once[g.key] {
					once[g.key] = true
					seen[g.key]++
				}
			}
		}
		for _, f := range fs {
			if seen[f.key] < 2 {
				r.Count("udp_mismatch_not_reproduced", 1)
				continue
			}
			r.Outcome("violation")
			rp := histSample(cfg, ch, o)
			rp.Prop, rp.Key = prop, f.key
			r.Violate(f.key, f.msg, "hist", rp, nil)
			// executions over the real socket wait through real timeouts, and a
			// library that misbehaves there tends to do so on many of them: the
			// replay stage stops at its first confirmed counterexample (the
			// in-memory exploration is not affected)
			udpStop = true
			r.Cap("real-transport replay stopped at its first counterexample")
		}
	}
	e.Explore()
}

// udpStop ends the real-transport replays of this process early.
var udpStop bool

// histDiff compares an execution over the real transport (u) with the
// in-memory execution of the same choices (m): "" if the BMC received the same
// datagrams and the caller got the same results.
func histDiff(u, m *histObs) string {
	if (u.HandshakeErr == "") != (m.HandshakeErr == "") {
		return fmt.Sprintf("handshake over the real transport: %q; over the model: %q", u.HandshakeErr, m.HandshakeErr)
	}
	reqs := func(o *histObs) [][]byte {
		var out [][]byte
		if o.W == nil {
			return nil
		}
		for _, ex := range o.W.T.Log {
			if !ex.CtxDone {
				out = append(out, ex.Req)
			}
		}
		return out
	}
	ur, mr := reqs(u), reqs(m)
	for i := 0; i < len(ur) || i < len(mr); i++ {
		switch {
		case i >= len(ur):
			return fmt.Sprintf("the model's BMC received %d datagrams, the real socket's only %d; first missing: % x", len(mr), len(ur), mr[i])
		case i >= len(mr):
			return fmt.Sprintf("the BMC behind the real socket received %d datagrams, the model's only %d; first extra: % x", len(ur), len(mr), ur[i])
		case string(ur[i]) != string(mr[i]):
			return fmt.Sprintf("datagram %d differs: real socket % x, model % x", i, ur[i], mr[i])
		}
	}
	if len(u.Results) != len(m.Results) {
		return fmt.Sprintf("%d results over the real transport, %d over the model", len(u.Results), len(m.Results))
	}
	for i := range u.Results {
		a, b := u.Results[i], m.Results[i]
		if a.ErrNil != b.ErrNil || a.Code != b.Code || a.Rsp != b.Rsp || (a.Panic == "") != (b.Panic == "") {
			return fmt.Sprintf("result %d differs: real transport (code %#02x, err %q, %s), model (code %#02x, err %q, %s)", i, a.Code, a.Err, a.Rsp, b.Code, b.Err, b.Rsp)
		}
	}
	return ""
}

func histSample(cfg histCfg, ch *env.Chooser, o *histObs) histReplay {
	rp := histReplay{Cfg: cfg, Choices: append([]int{}, ch.Choices...)}
	for pos, oi := range cfg.Ops {
		rp.Ops = append(rp.Ops, histOps[oi].Name)
		if pos < len(o.Results) {
			rp.Answers = append(rp.Answers, o.Results[pos].Answers)
		}
	}
	return rp
}

// histOutcome summarises an execution for the vacuity guard.
func histOutcome(o *histObs) string {
	retried, failed := false, false
	for _, r := range o.Results {
		if len(r.Classes) > 1 {
			retried = true
		}
		if !r.ErrNil {
			failed = true
		}
	}
	switch {
	case retried && failed:
		return "retried+failed"
	case retried:
		return "retried"
	case failed:
		return "failed"
	}
	return "all-first-attempt-success"
}

// histJudges holds the oracles of the other history-based properties, so the
// shared replayer can re-judge a recorded execution.
var histJudges = map[string]func(histCfg, *histObs) []finding{}
