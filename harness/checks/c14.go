package checks

import (
	"bytes"
	"encoding/json"
	"fmt"
	"sort"
	"strings"

	"github.com/gebn/bmc"
	"github.com/gebn/bmc/pkg/ipmi"

	"verif/env"
	"verif/ref"
	"verif/rep"
)

// C14: SDR repository retrieval returns one consistent, complete set of records.

func init() {
	register(&Check{ID: "C14", Run: runC14, Shards: 16, MinOutcomes: 2})
	Replayers["c14"] = func(raw json.RawMessage) (string, bool) {
		var c c14Replay
		json.Unmarshal(raw, &c)
		o := c14Exec(c.Scn, &env.Chooser{Prefix: c.Choices})
		k, msg := c14Judge(o)
		return fmt.Sprintf("%+v: %s %s", c.Scn, k, msg), k != ""
	}
}

// recShape describes one record of a generated repository.
type recShape struct {
	Type  byte `json:"type"`  // 0x01 full, 0x02 compact, 0x11 FRU locator, 0x12 MC locator, 0xC0 OEM
	Enc   byte `json:"enc"`   // ID string encoding 0..3 (full records)
	NChar int  `json:"nchar"` // ID string characters
	Pad   int  `json:"pad"`   // extra bytes after the ID string (records may be longer than needed)
	// Res: the reserved bit 5 of the type/length byte is set (43.1: bits 4:0 are
	// the length; reserved bits are ignored on reading)
	Res bool `json:"res,omitempty"`
}

type c14Scn struct {
	Recs   []recShape `json:"recs"`
	IDs    []uint16   `json:"ids"`
	Faults bool       `json:"faults"`
	// TimeBase, if non-zero, is the repository's most recent addition timestamp
	// at the start (seconds; values around 2^31 are the year 2038)
	TimeBase uint32 `json:"timebase,omitempty"`
	// EraseBase, if non-zero, is the most recent erase timestamp (default: 1000 s
	// before the addition timestamp)
	EraseBase uint32 `json:"erasebase,omitempty"`
	// BMCOutSeq, if non-zero, is where the BMC's own session sequence numbering
	// stands when the retrieval starts
	BMCOutSeq uint32 `json:"bmc_out_seq,omitempty"`
}

type c14Replay struct {
	Scn     c14Scn   `json:"scn"`
	Choices []int    `json:"choices"`
	Names   []string `json:"names"`
}

func idStringBytes(enc byte, n int, seed byte) []byte {
	switch enc {
	case 1:
		return pattern((n+1)/2, 0x12+seed, 0x11)
	case 2:
		return pattern((n*6+7)/8, 0x29+seed, 0x35)
	default:
		b := make([]byte, n)
		for i := range b {
			b[i] = 'A' + (seed+byte(i))%26
		}
		if seed%2 == 0 {
			// Latin-1 text whose high bytes happen to form UTF-8 sequences
			// ("Â°", "Ã©", "â„¦" read byte by byte), and a lone high byte
			hi := []byte{0xC2, 0xB0, 0xC3, 0xA9, 0xE2, 0x84, 0xA6, 0xB5}
			for i := range b {
				if i%3 != 2 {
					b[i] = hi[(int(seed)+i)%len(hi)]
				}
			}
			if n >= 2 {
				b[0], b[1] = 0xC3, 0xA9
			}
		}
		return b
	}
}

// buildRecord encodes a whole SDR (header + body) for a shape.
func buildRecord(id uint16, s recShape, seed byte) []byte {
	var body []byte
	switch s.Type {
	case 0x01:
		body = make([]byte, 43)
		for i := range body {
			body[i] = seed*7 + byte(i)*3
		}
		body[1] &= 0xF3
		body[15] = (seed % 3) << 6
		body[18] = seed % 12
		body[25] &= 0x07
		body[42] = s.Enc<<6 | byte(s.NChar)
		if s.Res {
			body[42] |= 0x20
		}
		body = append(body, idStringBytes(s.Enc, s.NChar, seed)...)
		body = append(body, pattern(s.Pad, 0xEE, 0)...)
	default:
		body = pattern(10+int(seed%7), seed, 5)
	}
	hdr := []byte{byte(id), byte(id >> 8), 0x51, s.Type, byte(len(body))}
	return append(hdr, body...)
}

func c14Repo(scn c14Scn) *ref.Repo {
	r := &ref.Repo{LastAdd: 5000, LastErase: 4000}
	if scn.TimeBase != 0 {
		r.LastAdd, r.LastErase = scn.TimeBase, scn.TimeBase-1000
	}
	if scn.EraseBase != 0 {
		r.LastErase = scn.EraseBase
	}
	for i, s := range scn.Recs {
		r.Recs = append(r.Recs, ref.SDRRec{ID: scn.IDs[i], Data: buildRecord(scn.IDs[i], s, byte(i+1))})
	}
	return r
}

type c14Obs struct {
	Err      string
	Panic    string
	Got      map[uint16]*ipmi.FullSensorRecord
	Final    *ref.Repo
	Mods     []string
	Sends    int
	Runaway  bool
	Problems []string
	// Snaps are the repository states: initial, then after each modification;
	// MustSee is the index of the last state whose modification bumped a
	// timestamp (the library must notice it), 0 if none.
	Snaps   []*ref.Repo
	MustSee int
}

func c14Exec(scn c14Scn, ch *env.Chooser) *c14Obs {
	cfg := defaultConfig()
	cfg.Repo = c14Repo(scn)
	w := newWorld(cfg, nil, nil)
	o := &c14Obs{}
	sess, err := w.Conn.NewV2Session(w.Ctx, &bmc.V2SessionOpts{SessionOpts: bmc.SessionOpts{Username: "c14", Password: cfg.Password, MaxPrivilegeLevel: ipmi.PrivilegeLevelUser}, CipherSuites: []ipmi.CipherSuite{ipmi.CipherSuite3}})
	if err != nil {
		o.Err = "handshake: " + err.Error()
		return o
	}
	if scn.BMCOutSeq != 0 {
		if bs := w.BMC.Sessions[cfg.SIDC]; bs != nil {
			bs.OutSeq = scn.BMCOutSeq
		}
	}
	w.T.Ch = ch
	// like the real transport: every reply is a window into one reused buffer
	w.T.Window, w.T.Poison = true, 0xAA
	repo := w.BMC.Cfg.Repo
	o.Snaps = []*ref.Repo{repo.Clone()}
	nextID := uint16(0x7000)
	mod := func(name string, f func()) env.Answer {
		a := env.Honest()
		a.Name = name
		a.Pre = func(t *env.Transport) {
			o.Mods = append(o.Mods, fmt.Sprintf("%s@send%d", name, o.Sends))
			la, le := repo.LastAdd, repo.LastErase
			f()
			o.Snaps = append(o.Snaps, repo.Clone())
			if repo.LastAdd != la || repo.LastErase != le {
				o.MustSee = len(o.Snaps) - 1
			}
		}
		return a
	}
	w.T.Menu = func(t *env.Transport, req []byte) []env.Answer {
		o.Sends++
		if o.Sends > 3000 {
			o.Runaway = true
			w.Cancel()
		}
		if !scn.Faults || o.Sends > 60 {
			return []env.Answer{env.Honest()}
		}
		return []env.Answer{
			env.Honest(),
			mod("add-record", func() {
				nextID++
				repo.Add(ref.SDRRec{ID: nextID, Data: buildRecord(nextID, recShape{Type: 1, Enc: 3, NChar: 5}, byte(nextID))}, 1)
			}),
			mod("erase-first-record", func() {
				if len(repo.Recs) > 1 {
					repo.Erase(0, 1)
				} else {
					repo.CancelReservation()
				}
			}),
			mod("erase-last-record", func() {
				if len(repo.Recs) > 1 {
					repo.Erase(len(repo.Recs)-1, 1)
				} else {
					repo.CancelReservation()
				}
			}),
			mod("reservation-cancelled", func() { repo.CancelReservation() }),
			mod("add-record-same-second", func() {
				nextID++
				repo.Add(ref.SDRRec{ID: nextID, Data: buildRecord(nextID, recShape{Type: 1, Enc: 2, NChar: 4}, byte(nextID))}, 0)
			}),
			mod("add-record-reservation-kept", func() {
				nextID++
				repo.KeepReservation = true
				repo.Add(ref.SDRRec{ID: nextID, Data: buildRecord(nextID, recShape{Type: 1, Enc: 1, NChar: 6}, byte(nextID))}, 1)
				repo.KeepReservation = false
			}),
			mod("erase-last-record-reservation-kept", func() {
				if len(repo.Recs) > 1 {
					repo.KeepReservation = true
					repo.Erase(len(repo.Recs)-1, 1)
					repo.KeepReservation = false
				} else {
					repo.CancelReservation()
				}
			}),
		}
	}
	var got bmc.SDRRepository
	o.Panic = guard(func() { got, err = bmc.RetrieveSDRRepository(w.Ctx, sess) })
	if err != nil {
		o.Err = err.Error()
	}
	if got != nil {
		o.Got = map[uint16]*ipmi.FullSensorRecord{}
		for id, r := range got {
			o.Got[uint16(id)] = r
		}
	}
	o.Final = repo
	for _, p := range problemsOf(w.BMC) {
		o.Problems = append(o.Problems, p)
	}
	return o
}

func c14Judge(o *c14Obs) (string, string) {
	if o.Panic != "" {
		return "C14/panic/" + siteKey(o.Panic), o.Panic
	}
	if o.Runaway {
		return "C14/does-not-terminate", fmt.Sprintf("more than 3000 requests after modifications %v", o.Mods)
	}
	if len(o.Problems) > 0 {
		return "C14/malformed-request", strings.Join(o.Problems, "; ")
	}
	if o.Got == nil {
		return "C14/error/" + mods(o.Mods), fmt.Sprintf("retrieval failed although the context never expired (modifications %v): %s", o.Mods, o.Err)
	}
	// the result must be one single state of the repository, no older than
	// the last modification the BMC reported through its timestamps
	var firstKey, firstMsg string
	for j := len(o.Snaps) - 1; j >= o.MustSee; j-- {
		k, m := c14Match(o, o.Snaps[j])
		if k == "" {
			return "", ""
		}
		if firstKey == "" {
			firstKey, firstMsg = k, m
		}
	}
	return firstKey, firstMsg
}

// c14Match compares the result with one repository state.
func c14Match(o *c14Obs, state *ref.Repo) (string, string) {
	want := map[uint16][]byte{}
	for _, rec := range state.Recs {
		if rec.Data[3] == 0x01 {
			want[rec.ID] = rec.Data[5:]
		}
	}
	var ids []int
	for id := range want {
		ids = append(ids, int(id))
	}
	sort.Ints(ids)
	for _, id := range ids {
		g, ok := o.Got[uint16(id)]
		if !ok {
			var have []string
			for k := range o.Got {
				have = append(have, fmt.Sprintf("%#04x", k))
			}
			sort.Strings(have)
			return "C14/record-missing-or-under-wrong-id/" + mods(o.Mods), fmt.Sprintf("full sensor record %#04x is not in the result under its own ID (result keys %v; modifications %v)", id, have, o.Mods)
		}
		f, _, err := ref.FullSensorRecord(want[uint16(id)])
		if err != nil {
			return "C14/harness", "reference cannot decode generated record: " + err.Error()
		}
		if name, got, exp := compareFields(f, g); name != "" {
			return "C14/field/" + name, fmt.Sprintf("record %#04x field %s = %s, reference decoding %s", id, name, got, exp)
		}
		// the record's own bytes, as the layer exposes them, must still be the
		// record's (not whatever later replies left in the receive buffer)
		body := want[uint16(id)]
		_, consumed, _, _ := ref.IDString(body[42], body[43:])
		if !bytes.Equal(g.LayerContents(), body[:43+consumed]) || !bytes.Equal(g.LayerPayload(), body[43+consumed:]) {
			return "C14/field/layer-bytes", fmt.Sprintf("record %#04x: layer contents % x payload % x, the record is % x", id, g.LayerContents(), g.LayerPayload(), body)
		}
	}
	for id := range o.Got {
		if _, ok := want[id]; !ok {
			return "C14/extra-record/" + mods(o.Mods), fmt.Sprintf("result contains %#04x, which is not a full sensor record of the repository's final state (modifications %v): the set does not correspond to a single state", id, o.Mods)
		}
	}
	return "", ""
}

func mods(ms []string) string {
	if len(ms) == 0 {
		return "undisturbed"
	}
	var out []string
	for _, m := range ms {
		out = append(out, strings.Split(m, "@")[0])
	}
	return strings.Join(out, "+")
}

func runC14(r *rep.R) {
	r.SetRule("a case is one execution of RetrieveSDRRepository on a session against the reference BMC's repository: all repositories of <= n records over a record-shape alphabet (full records x 4 ID-string encodings x lengths {0,1|2,15,16,max}, compact, FRU locator, MC locator, OEM) x 6 ID layouts (first ID zero/non-zero, ascending, descending, sparse to 0xFFFE), structured repositories of 1..40 records; with faults: before each request of the walk one (quick) or two (thorough) of {add, erase first, erase last, reservation cancelled, add within the same second, add with the reservation kept, erase last with the reservation kept}; timestamps near 2^31 and FFFFFFFFh; oracle: result = exactly the full sensor records of the repository's final state, keyed by own ID, fields equal to the reference decoding")
	var shapes []recShape
	for enc := byte(0); enc < 4; enc++ {
		for _, n := range []int{0, 2, 15, 16} {
			shapes = append(shapes, recShape{Type: 1, Enc: enc, NChar: n})
		}
	}
	shapes = append(shapes, recShape{Type: 1, Enc: 1, NChar: 1}, recShape{Type: 1, Enc: 2, NChar: 1}, recShape{Type: 1, Enc: 3, NChar: 16, Pad: 0}, recShape{Type: 1, Enc: 2, NChar: 21}, recShape{Type: 1, Enc: 3, NChar: 6, Pad: 3})
	// bodies at and next to the 64-byte maximum
	shapes = append(shapes, recShape{Type: 1, Enc: 3, NChar: 8, Res: true}, recShape{Type: 1, Enc: 1, NChar: 4, Pad: 19, Res: true}, recShape{Type: 1, Enc: 2, NChar: 0, Pad: 21, Res: true})
	shapes = append(shapes, recShape{Type: 1, Enc: 3, NChar: 16, Pad: 4}, recShape{Type: 1, Enc: 3, NChar: 16, Pad: 5}, recShape{Type: 1, Enc: 1, NChar: 31, Pad: 5})
	shapes = append(shapes, recShape{Type: 0x02}, recShape{Type: 0x11}, recShape{Type: 0x12}, recShape{Type: 0xC0})
	layouts := func(n int) [][]uint16 {
		out := [][]uint16{}
		asc0, asc1, desc, sparse, hi, mix := make([]uint16, n), make([]uint16, n), make([]uint16, n), make([]uint16, n), make([]uint16, n), make([]uint16, n)
		for i := 0; i < n; i++ {
			asc0[i] = uint16(i)
			asc1[i] = uint16(i + 1)
			desc[i] = uint16(0x100 - i)
			sparse[i] = uint16(0x0010 + i*0x1337)
			hi[i] = uint16(0xFFFE - (n - 1 - i))
			mix[i] = []uint16{0x8000, 0x0001, 0x00FF, 0x0100}[i%4] + uint16(i/4)*2
		}
		return append(out, asc0, asc1, desc, sparse, hi, mix)
	}
	var idx int64
	run := func(scn c14Scn, bound int) {
		tag := fmt.Sprintf("c14/%v/%v/%v/%x/%x/%x", scn.Recs, scn.IDs, scn.Faults, scn.TimeBase, scn.BMCOutSeq, scn.EraseBase)
		e := &env.Explorer{R: r, Bound: bound, Scenario: tag, Idx: &idx,
			Run: func(ch *env.Chooser) any { return c14Exec(scn, ch) }}
		e.Check = func(ch *env.Chooser, obs any) {
			o := obs.(*c14Obs)
			k, msg := c14Judge(o)
			if k == "" {
				switch {
				case len(o.Mods) == 0:
					r.Outcome("undisturbed-walk-complete")
				default:
					r.Outcome("modified-during-call:single-state-returned")
				}
				if r.WantSample() && len(o.Mods) > 0 {
					r.Sample(map[string]any{"records": scn.Recs, "ids": scn.IDs, "modifications": o.Mods, "requests": o.Sends})
				}
				return
			}
			r.Outcome("violation")
			choices := append([]int{}, ch.Choices...)
			var names []string
			for i, p := range ch.Points {
				names = append(names, p.Menu[ch.Choices[i]])
			}
			r.Violate(k, msg, "c14", c14Replay{Scn: scn, Choices: choices, Names: names}, func() bool {
				k2, _ := c14Judge(c14Exec(scn, &env.Chooser{Prefix: choices}))
				return k2 == k
			})
		}
		e.Explore()
	}
	n := 2
	if thorough(r) {
		n = 3
	}
	// all repositories of <= n records, undisturbed
	var gen func(cur []recShape)
	gen = func(cur []recShape) {
		if len(cur) > 0 {
			for _, ids := range layouts(len(cur)) {
				run(c14Scn{Recs: append([]recShape{}, cur...), IDs: ids}, 0)
			}
		}
		if len(cur) == n {
			return
		}
		for _, s := range shapes {
			if len(cur) == 2 && s.Type == 1 && s.NChar != 2 && s.NChar != 0 {
				continue // depth 3: reduced shape alphabet
			}
			gen(append(cur, s))
		}
	}
	gen(nil)
	// structured repositories of 1..40 records
	for k := 1; k <= 40; k++ {
		var recs []recShape
		for i := 0; i < k; i++ {
			recs = append(recs, shapes[(i*5+k)%len(shapes)])
		}
		for li, ids := range layouts(k) {
			if li == 1 || li == 3 || li == 5 {
				run(c14Scn{Recs: recs, IDs: ids}, 0)
			}
		}
	}
	// faults before each request
	faultRepos := []c14Scn{
		{Recs: []recShape{{Type: 1, Enc: 3, NChar: 4}}, IDs: []uint16{1}, Faults: true},
		{Recs: []recShape{{Type: 1, Enc: 3, NChar: 4}, {Type: 1, Enc: 2, NChar: 8}}, IDs: []uint16{0, 7}, Faults: true},
		{Recs: []recShape{{Type: 1, Enc: 1, NChar: 3}, {Type: 2}, {Type: 1, Enc: 0, NChar: 2}}, IDs: []uint16{0x10, 0x11, 0x2000}, Faults: true},
		{Recs: []recShape{{Type: 0x11}, {Type: 1, Enc: 3, NChar: 16}, {Type: 0xC0}}, IDs: []uint16{3, 2, 1}, Faults: true},
	}
	k := 1
	for i, scn := range faultRepos {
		kk := k
		if thorough(r) && i < 3 {
			kk = 2
		}
		run(scn, kk)
	}
	// the same with the repository's clock about to pass 2^31 seconds, and with
	// the BMC's own sequence numbering about to wrap
	for _, tb := range []uint32{0x7FFFFFFF, 0x80000005} {
		scn := faultRepos[1]
		scn.TimeBase = tb
		run(scn, 1)
	}
	// a modification that brings a timestamp to FFFFFFFFh, the value a BMC without
	// a valid clock reports ("unspecified"): still a change of the timestamp
	for _, fr := range faultRepos[:3] {
		scn := fr
		scn.TimeBase = 0xFFFFFFFE
		run(scn, 1)
		scn = fr
		scn.TimeBase, scn.EraseBase = 0x80000005, 0xFFFFFFFE
		run(scn, 1)
	}
	// an erase that takes the erase timestamp across 2^31 (7FFFFFFFh -> 80000000h)
	// while the addition timestamp stays put: timestamps are unsigned
	for _, fr := range faultRepos[:3] {
		scn := fr
		scn.TimeBase, scn.EraseBase = 0x80000005, 0x7FFFFFFF
		run(scn, 1)
	}
	for _, out := range []uint32{0xFFFFFFFA, 0xFFFFFFFF} {
		scn := faultRepos[2]
		scn.BMCOutSeq = out
		run(scn, 1)
	}
	if thorough(r) {
		// three modifications during one call on the small repositories, two on larger ones
		run(faultRepos[0], 3)
		run(faultRepos[1], 3)
		run(c14Scn{Recs: []recShape{{Type: 1, Enc: 3, NChar: 5}, {Type: 0x12}, {Type: 1, Enc: 2, NChar: 9}, {Type: 1, Enc: 1, NChar: 7}}, IDs: []uint16{0, 5, 6, 0x4000}, Faults: true}, 2)
		run(c14Scn{Recs: []recShape{{Type: 1, Enc: 3, NChar: 2}, {Type: 1, Enc: 0, NChar: 3}, {Type: 2}, {Type: 1, Enc: 3, NChar: 16, Pad: 5}, {Type: 1, Enc: 2, NChar: 21}}, IDs: []uint16{0x20, 0x1F, 0x1E, 0x8000, 0xFFFE}, Faults: true}, 2)
	}
	r.Bound("max_records_exhaustive", n)
	r.Bound("fault_deviations", map[bool]int{true: 2, false: 1}[thorough(r)])
	r.Assume("a modification both within the same second and without reservation loss is undetectable by the protocol and is not generated")
	r.Assume("record bodies stay within the 64-byte maximum; 8-bit ID strings of length 1 (reserved encoding) are not generated")
}
