//go:build !sched

package checks

import "verif/rep"

// C19 needs the instrumented build (overlay + tag sched); bin/vcheck builds
// and runs that binary for C19. Reaching this stub means the plain binary
// was asked for C19 directly.
func init() {
	register(&Check{ID: "C19", Run: func(r *rep.R) {
		r.Infra("C19 must be run through bin/vcheck, which builds the scheduler-instrumented binary")
	}, Shards: 1, MinOutcomes: 0})
}
