package checks

import (
	"fmt"
	"go/ast"
	"go/parser"
	"go/token"
	"os"
	"path/filepath"
	"reflect"
	"sort"
	"strings"

	"github.com/gebn/bmc/pkg/dcmi"
	"github.com/gebn/bmc/pkg/ipmi"
	"github.com/google/gopacket"
	"github.com/google/gopacket/layers"

	"verif/ref"
)

// decoder is what every decodable layer offers (RAKPMessage1 has no CanDecode,
// so gopacket.DecodingLayer would be too narrow).
type decoder interface {
	DecodeFromBytes([]byte, gopacket.DecodeFeedback) error
}

// decLayer is a registry entry for one decodable layer.
type decLayer struct {
	Name string // pkg.Type as found by the source scan
	New  func() decoder
	// Snap renders everything observable about a decoded value.
	Snap func(l decoder) string
	// Bases are valid encodings (one per branch / optional-tail length).
	Bases [][]byte
	// MaxLen: lengths 0..MaxLen are swept with fill patterns.
	MaxLen int
}

// genericSnap renders every field of the layer (exported and unexported, and
// the BaseLayer contents/payload) by reflection. fmt's %+v is not used: a
// layer that embeds a type with a String method (ipmi.Message embeds
// Operation) would be rendered by that method and hide its other fields.
func genericSnap(l decoder) string { return canonNamed(reflect.ValueOf(l)) }

var aesKey = [16]byte{1, 2, 3, 4, 5, 6, 7, 8, 9, 10, 11, 12, 13, 14, 15, 16}

func newAES() decoder {
	a, err := ipmi.NewAES128CBC(aesKey)
	if err != nil {
		panic(err)
	}
	return a
}

func v2Snap(l decoder) string {
	s := l.(*ipmi.V2Session)
	return fmt.Sprintf("%+v enc=%v auth=%v id=%x seq=%x len=%d pad=%d sig=%x c=%x p=%x", s.PayloadDescriptor, s.Encrypted, s.Authenticated, s.ID, s.Sequence, s.Length, s.Pad, s.Signature, s.Contents, s.Payload)
}

func testIntegrity() func([]byte) []byte {
	f, _ := ref.Integrity(ref.IntegSHA1_96, []byte("layer-test-key-0123"))
	return f
}

func newV2Auth() decoder {
	return &ipmi.V2Session{IntegrityAlgorithm: hmacSHA1_96([]byte("layer-test-key-0123")), ConfidentialityLayerType: layers.LayerTypeRMCP}
}

func cat(parts ...[]byte) []byte {
	var b []byte
	for _, p := range parts {
		b = append(b, p...)
	}
	return b
}

func fsrBody(idType byte, idBytes []byte) []byte {
	b := make([]byte, 43)
	for i := range b {
		b[i] = byte(0x11 * (i%15 + 1))
	}
	b[1] &= 0xF3 // reserved bits of the owner LUN byte
	b[15] = 0x80
	b[18] = 0x00
	b[25] &= 0x07 // reserved bits of the analog characteristic flags
	b[42] = idType
	return append(b, idBytes...)
}

// decLayers lists every decodable layer with bases. The source scan below
// checks it is complete for the tree being verified.
func decLayers() []decLayer {
	cfg := defaultConfig()
	msgRsp := func(netfn, cmd, cc byte, data []byte) []byte {
		return ref.BuildMsg(0x81, netfn, 0, 0x20, 1, 0, cmd, append([]byte{cc}, data...))
	}
	msgReq := func(netfn, cmd byte, data []byte) []byte { return ref.BuildMsg(0x20, netfn, 0, 0x81, 1, 0, cmd, data) }
	v2 := func(pt byte, enc bool, sid, seq uint32, payload []byte, integ func([]byte) []byte) []byte {
		return ref.BuildPacket(pt, enc, sid, seq, payload, integ)[4:]
	}
	oemV2 := cat([]byte{0x06, 0x02, 0x57, 0x01, 0x00, 0x00, 0x34, 0x12}, []byte{1, 0, 0, 0, 2, 0, 0, 0, 3, 0}, []byte{9, 8, 7})
	osrOK := cat([]byte{0, 0, 4, 0}, []byte{1, 0, 0, 0}, []byte{0x44, 0x33, 0x22, 0x11}, []byte{0, 0, 0, 8, 1, 0, 0, 0}, []byte{1, 0, 0, 8, 1, 0, 0, 0}, []byte{2, 0, 0, 8, 1, 0, 0, 0})
	rakp2OK := cat([]byte{0, 0, 0, 0, 1, 0, 0, 0}, pattern(16, 1, 1), pattern(16, 0x40, 1), pattern(20, 0x80, 1))
	ls := []decLayer{
		{Name: "ipmi.SessionSelector", New: func() decoder { return &ipmi.SessionSelector{} }, Bases: [][]byte{{0x06, 0}, {0x00, 1}}, MaxLen: 8},
		{Name: "ipmi.V1Session", New: func() decoder { return &ipmi.V1Session{} }, MaxLen: 64, Bases: [][]byte{
			cat([]byte{0x00}, []byte{1, 0, 0, 0}, []byte{2, 0, 0, 0}, []byte{3}, []byte{7, 8, 9}),
			cat([]byte{0x02}, []byte{1, 0, 0, 0}, []byte{2, 0, 0, 0}, pattern(16, 0xF0, 1), []byte{3}, []byte{7, 8, 9}),
			cat([]byte{0x04}, []byte{0xFF, 0xFF, 0xFF, 0xFF}, []byte{0xFF, 0xFF, 0xFF, 0xFF}, pattern(16, 0xFF, 0), []byte{0}),
		}},
		{Name: "ipmi.V2Session", New: func() decoder { return &ipmi.V2Session{} }, Snap: v2Snap, MaxLen: 80, Bases: [][]byte{
			v2(ref.PTIPMI, false, 0, 0, msgRsp(0x07, 0x01, 0, cfg.DeviceID), nil),
			v2(ref.PTOpenRsp, false, 0, 0, osrOK, nil),
			v2(ref.PTIPMI, false, 0, 0, nil, nil),
			oemV2,
		}},
		{Name: "ipmi.V2Session(authenticated)", New: newV2Auth, Snap: v2Snap, MaxLen: 80, Bases: [][]byte{
			v2(ref.PTIPMI, true, 0x01020304, 7, pattern(32, 0x55, 3), testIntegrity()),
			v2(ref.PTIPMI, false, 1, 2, pattern(9, 0xFF, 0), testIntegrity()),
			v2(ref.PTIPMI, false, 1, 2, pattern(10, 0xFF, 0), testIntegrity()),
			v2(ref.PTIPMI, false, 1, 2, pattern(11, 1, 1), testIntegrity()),
			v2(ref.PTIPMI, false, 1, 2, pattern(12, 1, 1), testIntegrity()),
			v2(ref.PTIPMI, false, 1, 2, nil, testIntegrity()),
		}},
		{Name: "ipmi.Message", New: func() decoder { return &ipmi.Message{} }, MaxLen: 40, Bases: [][]byte{
			msgRsp(0x07, 0x01, 0, cfg.DeviceID),
			msgRsp(0x07, 0x3c, 0, nil),
			msgRsp(0x07, 0x01, 0xC1, nil),
			msgRsp(0x2d, 0x02, 0, append([]byte{0xDC}, cfg.PowerReading...)),
			msgRsp(0x2d, 0x02, 0xC1, []byte{0xDC}),
			msgRsp(0x2f, 0x10, 0, []byte{0x57, 0x01, 0x00, 9, 9}),
			msgRsp(0x2f, 0x10, 0, []byte{0x57, 0x01, 0x00}),
			msgReq(0x06, 0x38, []byte{0x8E, 0x04}),
			msgReq(0x06, 0x01, nil),
			msgReq(0x2c, 0x02, []byte{0xDC, 1, 0, 0}),
			msgReq(0x2c, 0x02, []byte{0xDC}),
			msgReq(0x2e, 0x02, []byte{1, 2, 3}),
			msgReq(0x2e, 0x02, []byte{1, 2, 3, 4}),
		}},
		{Name: "ipmi.AES128CBC", New: newAES, Snap: func(l decoder) string {
			a := l.(*ipmi.AES128CBC)
			return fmt.Sprintf("iv=%x payload=%x", a.Contents, a.Payload)
		}, MaxLen: 80, Bases: [][]byte{
			ref.AESEncrypt(aesKey[:], [16]byte{9, 9, 9}, msgRsp(0x07, 0x01, 0, cfg.DeviceID)),
			ref.AESEncrypt(aesKey[:], [16]byte{1}, pattern(15, 1, 1)),
			ref.AESEncrypt(aesKey[:], [16]byte{2}, pattern(16, 1, 1)),
			ref.AESEncrypt(aesKey[:], [16]byte{3}, nil),
		}},
		{Name: "ipmi.OpenSessionRsp", New: func() decoder { return &ipmi.OpenSessionRsp{} }, MaxLen: 48, Bases: [][]byte{
			osrOK, {0, 0x11, 0, 0, 1, 0, 0, 0}, {0x01}, {0, 1, 0, 0, 1, 0, 0},
		}},
		{Name: "ipmi.RAKPMessage1", New: func() decoder { return &ipmi.RAKPMessage1{} }, MaxLen: 56, Bases: [][]byte{
			cat([]byte{0, 0, 0, 0, 0x44, 0x33, 0x22, 0x11}, pattern(16, 1, 1), []byte{0x14, 0, 0, 5}, []byte("admin")),
			cat([]byte{0, 0, 0, 0, 0x44, 0x33, 0x22, 0x11}, pattern(16, 1, 1), []byte{0x04, 0, 0, 0}),
			cat([]byte{0, 0, 0, 0, 0x44, 0x33, 0x22, 0x11}, pattern(16, 1, 1), []byte{0x04, 0, 0, 16}, pattern(16, 0x41, 1)),
		}},
		{Name: "ipmi.RAKPMessage2", New: func() decoder { return &ipmi.RAKPMessage2{} }, MaxLen: 80, Bases: [][]byte{
			rakp2OK, rakp2OK[:40], {0, 0x0D, 0, 0, 1, 0, 0, 0}, cat(rakp2OK, pattern(12, 7, 0)),
		}},
		{Name: "ipmi.RAKPMessage4", New: func() decoder { return &ipmi.RAKPMessage4{} }, MaxLen: 48, Bases: [][]byte{
			cat([]byte{0, 0, 0, 0, 1, 0, 0, 0}, pattern(12, 0x90, 1)), {0, 0, 0, 0, 1, 0, 0, 0}, {0, 0x0F, 0, 0, 1, 0, 0, 0},
		}},
		{Name: "ipmi.GetDeviceIDRsp", New: func() decoder { return &ipmi.GetDeviceIDRsp{} }, MaxLen: 24, Bases: [][]byte{
			cfg.DeviceID, cfg.DeviceID[:11], cfg.DeviceID[:12], cfg.DeviceID[:13], cfg.DeviceID[:14], cat(cfg.DeviceID, []byte{5, 6}),
		}},
		{Name: "ipmi.GetChassisStatusRsp", New: func() decoder { return &ipmi.GetChassisStatusRsp{} }, MaxLen: 8, Bases: [][]byte{cfg.Chassis, cfg.Chassis[:3], {0xFF, 0xFF, 0xFF, 0xFF, 0xFF}}},
		{Name: "ipmi.GetSystemGUIDRsp", New: func() decoder { return &ipmi.GetSystemGUIDRsp{} }, MaxLen: 24, Bases: [][]byte{cfg.SystemGUID[:], cat(cfg.SystemGUID[:], []byte{1})}},
		{Name: "ipmi.GetChannelAuthenticationCapabilitiesRsp", New: func() decoder { return &ipmi.GetChannelAuthenticationCapabilitiesRsp{} }, MaxLen: 16, Bases: [][]byte{cfg.AuthCaps, pattern(8, 0xFF, 0), cat(cfg.AuthCaps, []byte{1})}},
		{Name: "ipmi.GetSessionInfoRsp", New: func() decoder { return &ipmi.GetSessionInfoRsp{} }, MaxLen: 24, Bases: [][]byte{cfg.SessionInfo, cfg.SessionInfo[:6], {0, 10, 2}, {1, 10, 2}, cfg.SessionInfo[:17], cat(cfg.SessionInfo, []byte{1, 2})}},
		{Name: "ipmi.SetSessionPrivilegeLevelRsp", New: func() decoder { return &ipmi.SetSessionPrivilegeLevelRsp{} }, MaxLen: 4, Bases: [][]byte{{4}, {0xFF}}},
		{Name: "ipmi.GetSDRRepositoryInfoRsp", New: func() decoder { return &ipmi.GetSDRRepositoryInfoRsp{} }, MaxLen: 20, Bases: [][]byte{histRepo().Info(), pattern(14, 0xFF, 0), pattern(15, 0x10, 1)}},
		{Name: "ipmi.ReserveSDRRepositoryRsp", New: func() decoder { return &ipmi.ReserveSDRRepositoryRsp{} }, MaxLen: 6, Bases: [][]byte{{0x34, 0x12}, {0xFF, 0xFF, 0xFF}}},
		{Name: "ipmi.GetSDRRsp", New: func() decoder { return &ipmi.GetSDRRsp{} }, MaxLen: 12, Bases: [][]byte{{0x05, 0x00, 1, 0, 0x51, 1, 0x30}, {0xFF, 0xFF}}},
		{Name: "ipmi.SDR", New: func() decoder { return &ipmi.SDR{} }, MaxLen: 12, Bases: [][]byte{{1, 0, 0x51, 1, 0x30}, {0xFF, 0xFF, 0x99, 0xC0, 0xFF, 1, 2}}},
		{Name: "ipmi.FullSensorRecord", New: func() decoder { return &ipmi.FullSensorRecord{} }, MaxLen: 80, Bases: [][]byte{
			fsrBody(0xC8, []byte("CPU Temp")), fsrBody(0xC0, nil), fsrBody(0xC0, []byte{0, 0}), fsrBody(0x85, []byte{0x29, 0xDC, 0xA6, 0x29}), fsrBody(0x43, []byte{0x12, 0x3A}),
			fsrBody(0x02, []byte("ab")), fsrBody(0xDF, pattern(31, 0x41, 1)), fsrBody(0x9F, pattern(24, 0x41, 1)), fsrBody(0x5F, pattern(16, 0x12, 1)), fsrBody(0x80, nil), fsrBody(0x40, nil), fsrBody(0xC1, []byte("xy")),
		}},
		{Name: "ipmi.GetSensorReadingRsp", New: func() decoder { return &ipmi.GetSensorReadingRsp{} }, MaxLen: 8, Bases: [][]byte{{0x2A, 0xC0, 0x00}, {0x90, 0x40, 0, 0}, {0xFF, 0xFF, 0xFF, 0xFF, 0xFF}}},
		{Name: "ipmi.GetChannelCipherSuitesRsp", New: func() decoder { return &ipmi.GetChannelCipherSuitesRsp{} }, MaxLen: 24, Bases: [][]byte{cat([]byte{1}, cfg.CipherSuiteData[:16]), {1}, {1, 0xC0, 3, 1, 0x41, 0x81}, cat([]byte{1}, pattern(20, 0xC0, 1))}},
		{Name: "dcmi.GetDCMICapabilitiesInfoSupportedCapabilitiesRsp", New: func() decoder { return &dcmi.GetDCMICapabilitiesInfoSupportedCapabilitiesRsp{} }, MaxLen: 12, Bases: [][]byte{cfg.DCMICaps[1], {1, 0, 1, 0x0F, 1, 0x3F}, {1, 1, 2, 0, 0, 0, 9}}},
		{Name: "dcmi.GetDCMICapabilitiesInfoMandatoryPlatformAttrsRsp", New: func() decoder { return &dcmi.GetDCMICapabilitiesInfoMandatoryPlatformAttrsRsp{} }, MaxLen: 12, Bases: [][]byte{cfg.DCMICaps[2], {1, 0, 1, 0x80, 0x10, 7, 7}, {1, 5, 2, 0x80, 0x10, 7, 7}, {1, 0, 1, 0xFF, 0xFF, 7, 7, 9}}},
		{Name: "dcmi.GetDCMICapabilitiesInfoOptionalPlatformAttrsRsp", New: func() decoder { return &dcmi.GetDCMICapabilitiesInfoOptionalPlatformAttrsRsp{} }, MaxLen: 10, Bases: [][]byte{cfg.DCMICaps[3], {1, 5, 2, 0xFF, 0xFF, 1}}},
		{Name: "dcmi.GetDCMICapabilitiesInfoManageabilityAccessAttrsRsp", New: func() decoder { return &dcmi.GetDCMICapabilitiesInfoManageabilityAccessAttrsRsp{} }, MaxLen: 10, Bases: [][]byte{cfg.DCMICaps[4], {1, 5, 2, 1, 2, 3, 4}}},
		{Name: "dcmi.GetDCMICapabilitiesInfoEnhancedSystemPowerStatisticsAttrsRsp", New: func() decoder {
			return &dcmi.GetDCMICapabilitiesInfoEnhancedSystemPowerStatisticsAttrsRsp{}
		}, MaxLen: 16, Bases: [][]byte{cfg.DCMICaps[5], {1, 5, 2, 0}, {1, 5, 2, 1, 0xFF, 7}, cat([]byte{1, 5, 2, 8}, pattern(8, 0x41, 0x11))}},
		{Name: "dcmi.GetPowerReadingRsp", New: func() decoder { return &dcmi.GetPowerReadingRsp{} }, MaxLen: 24, Bases: [][]byte{cfg.PowerReading, pattern(17, 0xFF, 0), cat(cfg.PowerReading, []byte{1})}},
		{Name: "dcmi.GetDCMISensorInfoRsp", New: func() decoder { return &dcmi.GetDCMISensorInfoRsp{} }, MaxLen: 24, Bases: [][]byte{{2, 2, 0x11, 0, 0x12, 0}, {0, 0}, {9, 8, 1, 0, 2, 0, 3, 0, 4, 0, 5, 0, 6, 0, 7, 0, 8, 0}, {1, 1, 5, 0, 9}}},
	}
	for i := range ls {
		if ls[i].Snap == nil {
			ls[i].Snap = genericSnap
		}
	}
	return ls
}

// scanDecoders lists "pkg.Type" for every type with a DecodeFromBytes method
// in /repo/pkg/ipmi and /repo/pkg/dcmi (current working tree).
func scanDecoders() ([]string, error) {
	var out []string
	for _, pkg := range []string{"ipmi", "dcmi"} {
		dir := filepath.Join("/repo/pkg", pkg)
		ents, err := os.ReadDir(dir)
		if err != nil {
			return nil, err
		}
		fset := token.NewFileSet()
		for _, e := range ents {
			if !strings.HasSuffix(e.Name(), ".go") || strings.HasSuffix(e.Name(), "_test.go") {
				continue
			}
			f, err := parser.ParseFile(fset, filepath.Join(dir, e.Name()), nil, 0)
			if err != nil {
				return nil, err
			}
			for _, d := range f.Decls {
				fd, ok := d.(*ast.FuncDecl)
				if !ok || fd.Recv == nil || fd.Name.Name != "DecodeFromBytes" {
					continue
				}
				t := fd.Recv.List[0].Type
				if st, ok := t.(*ast.StarExpr); ok {
					t = st.X
				}
				if id, ok := t.(*ast.Ident); ok {
					out = append(out, pkg+"."+id.Name)
				}
			}
		}
	}
	sort.Strings(out)
	return out, nil
}

// missingLayers returns decoders present in the tree but not in the registry.
func missingLayers(reg []decLayer) []string {
	have := map[string]bool{}
	for _, l := range reg {
		n := l.Name
		if i := strings.Index(n, "("); i > 0 {
			n = n[:i]
		}
		have[n] = true
	}
	found, err := scanDecoders()
	if err != nil {
		return []string{"scan failed: " + err.Error()}
	}
	var miss []string
	for _, f := range found {
		if !have[f] {
			miss = append(miss, f)
		}
	}
	return miss
}
