package checks

import (
	"context"
	"fmt"
	"github.com/prometheus/client_golang/prometheus"
	"runtime/debug"
	"strings"
	"time"

	"github.com/cenkalti/backoff/v4"
	"github.com/gebn/bmc"
	"github.com/gebn/bmc/pkg/ipmi"

	"verif/env"
	"verif/ref"
)

// World is one closed system: reference BMC, in-memory transport, and the
// library's connection object on top of it.
type World struct {
	BMC    *ref.BMC
	T      *env.Transport
	Conn   *bmc.V2SessionlessTransport
	Ctx    context.Context
	Cancel context.CancelFunc
	Clock  *env.Clock
	// UDP is set when the library's own transport talks to the environment
	// over a loopback socket (newWorldUDP).
	UDP *env.UDPFront
	// Runaway (UDP worlds): the library kept retrying without end and was
	// stopped by cancelling its context.
	Runaway  string
	sleeps   int
	sentBase int
	// CancelAtNextSleep: the caller's context ends when the library next enters a
	// back-off wait (set by environment answers)
	CancelAtNextSleep bool
}

// transmitted reads the library's own count of datagrams written to sockets
// (process-wide histogram bmc_transport_transmit_bytes).
func transmitted() int {
	mfs, err := prometheus.DefaultGatherer.Gather()
	if err != nil {
		return -1
	}
	for _, mf := range mfs {
		if mf.GetName() == "bmc_transport_transmit_bytes" {
			n := 0
			for _, m := range mf.GetMetric() {
				n += int(m.GetHistogram().GetSampleCount())
			}
			return n
		}
	}
	return 0
}

// quiesce waits until the environment has read every datagram the library has
// written (a call may return on a datagram that was already waiting in the
// socket while its last transmission is still on its way), so that what
// happens next is ordered after it, as in the in-memory model.
func (w *World) quiesce() {
	if w.UDP == nil {
		return
	}
	deadline := time.Now().Add(2 * time.Second)
	for time.Now().Before(deadline) {
		if w.UDP.Seen() >= transmitted()-w.sentBase {
			return
		}
		time.Sleep(200 * time.Microsecond)
	}
}

// udpAttemptTimeout is the per-attempt timeout of worlds running over a real
// socket: long enough that a loopback reply is never late on a loaded machine.
const udpAttemptTimeout = 250 * time.Millisecond

// newWorldUDP is newWorld with the library's real transport (DialV2) in front
// of the same environment, served on a loopback UDP socket. Back-off waits are
// skipped (seam), per-attempt timeouts are real.
func newWorldUDP(cfg ref.Config, ch *env.Chooser) (*World, error) {
	w := &World{BMC: ref.NewBMC(cfg)}
	w.T = &env.Transport{BMC: w.BMC, Ch: ch, Timeout: time.Second}
	f, err := w.T.ListenUDP()
	if err != nil {
		return nil, err
	}
	w.UDP = f
	w.sentBase = transmitted()
	w.Ctx, w.Cancel = newCtx()
	backoff.VerifNow = nil
	backoff.VerifSleep = func(ctx context.Context, d time.Duration) bool {
		// back-off waits are skipped; a retry loop that neither ends nor reaches
		// the socket is stopped by ending the caller's context
		if w.sleeps++; w.sleeps > 60 {
			if w.Runaway == "" {
				w.Runaway = "more than 60 back-off rounds within one operation"
			}
			w.Cancel()
		}
		return true
	}
	f.MaxAttempts = 30
	f.OnRunaway = func() {
		if w.Runaway == "" {
			w.Runaway = "more than 30 datagrams within one operation"
		}
		w.Cancel()
	}
	conn, err := bmc.DialV2(f.Addr(), bmc.WithTimeout(udpAttemptTimeout))
	if err != nil {
		f.Close()
		return nil, err
	}
	w.Conn = conn
	env.InstallRand(1)
	return w, nil
}

// Close releases the sockets of a UDP world (no-op otherwise).
func (w *World) Close() {
	if w.UDP != nil {
		w.quiesce()
		w.Conn.Close()
		w.UDP.Close()
	}
}

// beginOp marks the start of a caller-level operation.
func (w *World) beginOp() {
	if w.UDP != nil {
		w.sleeps = 0
		w.quiesce()
		w.UDP.Locked(w.T.BeginOp)
		return
	}
	w.T.BeginOp()
}

func pattern(n int, start, step byte) []byte {
	b := make([]byte, n)
	for i := range b {
		b[i] = start + byte(i)*step
	}
	return b
}

func arr16(start, step byte) (a [16]byte) {
	copy(a[:], pattern(16, start, step))
	return
}

// stdCSData advertises suites 3 and 17 plus an OEM record.
func csData(recs ...ref.CSRecord) []byte {
	var b []byte
	for _, r := range recs {
		b = append(b, r.Encode()...)
	}
	return b
}

var (
	csRec3   = ref.CSRecord{ID: 3, Auth: 1, Integs: []byte{1}, Confs: []byte{1}}
	csRec17  = ref.CSRecord{ID: 17, Auth: 3, Integs: []byte{4}, Confs: []byte{1}}
	csRec8   = ref.CSRecord{ID: 8, Auth: 2, Integs: []byte{2}, Confs: []byte{1}}
	csRec1   = ref.CSRecord{ID: 1, Auth: 1}
	csRecOEM = ref.CSRecord{ID: 0x80, OEM: true, IANA: 0x0002A2, Auth: 1, Integs: []byte{1}, Confs: []byte{1, 2}}
)

func defaultConfig() ref.Config {
	return ref.Config{
		Password:        []byte("correct horse"),
		GUID:            arr16(0xA0, 1),
		RC:              arr16(0x10, 3),
		SIDC:            0x11223344,
		CipherSuiteData: csData(csRec1, csRec3, csRecOEM, csRec17),
		DeviceID:        []byte{0x20, 0x81, 0x02, 0x43, 0x02, 0xBF, 0x57, 0x01, 0x00, 0x34, 0x12, 0x01, 0x02, 0x03, 0x04},
		Chassis:         []byte{0x21, 0x10, 0x40, 0x55},
		SessionInfo:     []byte{0x01, 0x0A, 0x02, 0x02, 0x04, 0x11, 192, 168, 1, 7, 1, 2, 3, 4, 5, 6, 0x6F, 0x02},
		AuthCaps:        []byte{0x01, 0x80, 0x04, 0x02, 0, 0, 0, 0},
		SystemGUID:      arr16(0xC0, 1),
		Sensors:         map[byte][]byte{1: {0x2A, 0xC0, 0x00}, 2: {0x90, 0x40, 0x00, 0x00}},
		PowerReading:    []byte{0x64, 0, 0x10, 0, 0xF0, 0, 0x70, 0, 0x78, 0x56, 0x34, 0x12, 0xE8, 0x03, 0, 0, 0x40},
		DCMICaps: map[byte][]byte{
			1: {1, 5, 2, 0x0F, 0x01, 0x3F},
			2: {1, 5, 2, 0x80, 0x10, 0x07, 0x07, 0x0A},
			3: {1, 5, 2, 0x20, 0x12},
			4: {1, 5, 2, 0x01, 0xFF, 0xFF},
			5: {1, 5, 2, 0x03, 0x05, 0x41, 0x81},
		},
		DCMISensors:  map[byte][]uint16{0x40: {0x0011, 0x0012}, 0x41: {0x0021}, 0x42: {}},
		DCMIPageSize: 8,
	}
}

// newWorld builds a world. clock may be nil (no virtual time accounting).
func newWorld(cfg ref.Config, ch *env.Chooser, clock *env.Clock) *World {
	w := &World{BMC: ref.NewBMC(cfg), Clock: clock}
	// Replies are exact-capacity copies by default, so that reading past the
	// datagram panics; C12 and C14 switch to windows into one reused, poisoned
	// 512-byte buffer (what the real transport hands out), so that a value that
	// keeps pointing into the buffer is seen to change. Making the window the
	// default was tried and withdrawn: it turned the loud over-read of a seeded
	// change (C05-muta6) into a silent one.
	w.T = &env.Transport{BMC: w.BMC, Ch: ch, Clock: clock, Timeout: time.Second}
	w.Ctx, w.Cancel = newCtx()
	if clock != nil {
		clock.Cancel = w.Cancel
	}
	backoff.VerifSleep = func(ctx context.Context, d time.Duration) bool {
		if w.CancelAtNextSleep {
			w.CancelAtNextSleep = false
			w.Cancel()
		}
		return w.T.Sleep(ctx, d)
	}
	backoff.VerifNow = nil
	w.Conn = bmc.NewV2SessionlessTransportVerif(w.T, time.Hour, &backoff.ZeroBackOff{})
	env.InstallRand(1)
	return w
}

// guard runs f and converts a panic into a description (site included).
func guard(f func()) (panicked string) {
	watchEnter()
	defer watchLeave()
	defer func() {
		if e := recover(); e != nil {
			if r, ok := e.(env.Runaway); ok {
				panicked = "RUNAWAY: " + r.What
				return
			}
			st := string(debug.Stack())
			if harnessPanic(st) {
				panic(fmt.Sprintf("panic raised in harness code, not in the library: %v\n%s", e, st))
			}
			panicked = fmt.Sprintf("%v @ %s", e, panicSite(st))
		}
	}()
	f()
	return ""
}

// panicSite extracts the first gebn/bmc frame below the panic from a stack.
func panicSite(stack string) string {
	lines := strings.Split(stack, "\n")
	seenPanic := false
	for i, l := range lines {
		if strings.HasPrefix(l, "panic(") {
			seenPanic = true
			continue
		}
		if seenPanic && strings.Contains(l, "github.com/gebn/bmc") && !strings.Contains(l, "verif_hooks") && i+1 < len(lines) {
			fn := l
			if k := strings.LastIndex(fn, "("); k > 0 {
				fn = fn[:k]
			}
			fn = strings.TrimPrefix(fn, "github.com/gebn/bmc")
			file := strings.TrimSpace(lines[i+1])
			if k := strings.Index(file, " +0x"); k > 0 {
				file = file[:k]
			}
			file = strings.TrimPrefix(file, "/repo/")
			return fn + " " + file
		}
	}
	return "?"
}

// siteKey reduces "func file:line" to "func" so keys survive line shifts.
func siteKey(site string) string {
	if i := strings.LastIndex(site, " @ "); i >= 0 {
		site = site[i+3:]
	}
	if i := strings.Index(site, " "); i > 0 {
		return site[:i]
	}
	return site
}

func suiteOf(s ref.Suite) ipmi.CipherSuite {
	return ipmi.CipherSuite{
		AuthenticationAlgorithm:  ipmi.AuthenticationAlgorithm(s.Auth),
		IntegrityAlgorithm:       ipmi.IntegrityAlgorithm(s.Integ),
		ConfidentialityAlgorithm: ipmi.ConfidentialityAlgorithm(s.Conf),
	}
}

// problemsOf collects the non-conformances the BMC found in what it received.
func problemsOf(b *ref.BMC) []string {
	var out []string
	for i, rx := range b.Log {
		for _, p := range rx.Problems {
			out = append(out, fmt.Sprintf("datagram %d (%s): %s", i, rx.Name, p))
		}
	}
	return out
}

// harnessPanic reports whether the innermost non-runtime frame of a recovered
// panic belongs to the harness (module verif) rather than to library code.
func harnessPanic(stack string) bool {
	lines := strings.Split(stack, "\n")
	seen := false
	for _, l := range lines {
		if strings.HasPrefix(l, "panic(") {
			seen = true
			continue
		}
		if !seen || strings.HasPrefix(l, "\t") || l == "" {
			continue
		}
		// walk down from the panic: the first frame that is either harness or
		// library code decides (standard library and runtime frames are skipped)
		if strings.HasPrefix(l, "verif/") {
			return true
		}
		if strings.HasPrefix(l, "github.com/gebn/bmc") {
			return false
		}
	}
	return false
}

// LibraryPanic classifies the stack of a panic that escaped every guard: if
// the first non-runtime frame below the panic is library code it returns the
// site (the panic is the library's, reached through an unguarded call).
func LibraryPanic(stack string) (site string, ok bool) {
	if harnessPanic(stack) || !strings.Contains(stack, "github.com/gebn/bmc") {
		return "", false
	}
	return panicSite(stack), true
}

// newCtx returns a harness-owned caller context (marked so the transport can
// tell whether the per-attempt context it is handed descends from it).
func newCtx() (context.Context, context.CancelFunc) {
	root := context.WithValue(context.Background(), env.RootKey, true)
	return context.WithCancel(root)
}

func ipmiRecordID(id int) ipmi.RecordID { return ipmi.RecordID(id) }

// short aliases for environment types used in menu literals
type envT = env.Transport
type envA = env.Answer

func envHonest() env.Answer { return env.Honest() }
