package checks

import (
	"fmt"
	"strings"

	"github.com/gebn/bmc/pkg/dcmi"
	"github.com/gebn/bmc/pkg/ipmi"
	"github.com/google/gopacket"

	"verif/env"
	"verif/ref"
	"verif/rep"
)

// C03: every packet sent in a session is authenticated, encrypted and well-formed.

// rawCmd is a caller-defined command with an arbitrary request body, the way
// a user of the library extends it (ipmi.Command is a public interface).
type rawCmd struct {
	op   ipmi.Operation
	body []byte
}

func (*rawCmd) Name() string                          { return "Raw" }
func (c *rawCmd) Operation() *ipmi.Operation          { return &c.op }
func (*rawCmd) RemoteLUN() ipmi.LUN                   { return ipmi.LUNBMC }
func (c *rawCmd) Request() gopacket.SerializableLayer { return gopacket.Payload(c.body) }
func (*rawCmd) Response() gopacket.DecodingLayer      { return nil }

var c03Ops []int // indexes into histOps

// indexes of the two further DCMI commands in histOps (set in init)
var opDCMISensorInfoCmd, opDCMICapsCmd int

func addOp(op histOp) int {
	histOps = append(histOps, op)
	return len(histOps) - 1
}

func init() {
	register(&Check{ID: "C03", Run: runC03, Shards: 16, MinOutcomes: 3})
	histJudges["C03"] = func(cfg histCfg, o *histObs) []finding { return c03Judge(cfg, o, nil) }
	// every library command usable in a session, with request values giving
	// different body lengths
	rawLens := []int{}
	for l := 0; l <= 48; l++ {
		rawLens = append(rawLens, l)
	}
	// long request bodies: the serialise buffer has to grow while the
	// confidentiality layer is being added
	rawLens = append(rawLens, 58, 59, 60, 64, 80, 100, 150, 200)
	for _, l := range rawLens {
		l := l
		body := pattern(l, byte(l), 7)
		c03Ops = append(c03Ops, addOp(histOp{Name: fmt.Sprintf("Raw(len=%d)", l), NetFn: 0x30, Cmd: byte(0x20 + l%200), Data: body,
			New: func() ipmi.Command {
				return &rawCmd{op: ipmi.Operation{Function: 0x30, Command: ipmi.CommandNumber(0x20 + l%200)}, body: body}
			}}))
	}
	c03Ops = append(c03Ops, opGetDeviceID, opChassisControl, opGetSDR, opSetPriv, opPowerReading, opChassisStatus, opSensorReading, opSystemGUID, opSessionInfo, opAuthCaps)
	c03Ops = append(c03Ops,
		addOp(histOp{Name: "GetSessionInfo(current)", NetFn: 0x06, Cmd: 0x3d, Data: []byte{0},
			New: func() ipmi.Command {
				return &ipmi.GetSessionInfoCmd{Req: ipmi.GetSessionInfoReq{Index: ipmi.SessionIndexCurrent}}
			}}),
		addOp(histOp{Name: "GetSessionInfo(handle)", NetFn: 0x06, Cmd: 0x3d, Data: []byte{0xFE, 0x33},
			New: func() ipmi.Command {
				return &ipmi.GetSessionInfoCmd{Req: ipmi.GetSessionInfoReq{Index: ipmi.SessionIndexHandle, Handle: 0x33}}
			}}),
		// the v1.5-style form (no extended data) that is used as a keepalive: its one
		// flag bit is clear, so the first request byte is the channel number alone
		addOp(histOp{Name: "GetChannelAuthenticationCapabilities(no extended data)", NetFn: 0x06, Cmd: 0x38, Data: []byte{0x0E, 0x04},
			New: func() ipmi.Command {
				return &ipmi.GetChannelAuthenticationCapabilitiesCmd{Req: ipmi.GetChannelAuthenticationCapabilitiesReq{Channel: ipmi.ChannelPresentInterface, MaxPrivilegeLevel: ipmi.PrivilegeLevelAdministrator}}
			}}),
		addOp(histOp{Name: "GetSDRRepositoryInfo", NetFn: 0x0a, Cmd: 0x20, New: func() ipmi.Command { return &ipmi.GetSDRRepositoryInfoCmd{} }}),
		addOp(histOp{Name: "ReserveSDRRepository", NetFn: 0x0a, Cmd: 0x22, New: func() ipmi.Command { return &ipmi.ReserveSDRRepositoryCmd{} }}),
		addOp(histOp{Name: "GetChannelCipherSuites", NetFn: 0x06, Cmd: 0x54, Data: []byte{0x0E, 0x00, 0x81},
			New: func() ipmi.Command {
				return &ipmi.GetChannelCipherSuitesCmd{Req: ipmi.GetChannelCipherSuitesReq{Channel: ipmi.ChannelPresentInterface, ListIndex: 1}}
			}}),
		addOp(histOp{Name: "CloseSession(handle)", NetFn: 0x06, Cmd: 0x3c, Data: []byte{0, 0, 0, 0, 0x21},
			New: func() ipmi.Command { return &ipmi.CloseSessionCmd{Req: ipmi.CloseSessionReq{ID: 0, Handle: 0x21}} }}),
	)
	opDCMISensorInfoCmd, opDCMICapsCmd = len(histOps), len(histOps)+1
	c03Ops = append(c03Ops,
		addOp(histOp{Name: "GetDCMISensorInfo", NetFn: 0x2c, Cmd: 0x07, Data: []byte{0xDC, 0x01, 0x40, 0x00, 0x01},
			New: func() ipmi.Command {
				return &dcmi.GetDCMISensorInfoCmd{Req: dcmi.GetDCMISensorInfoReq{Type: ipmi.SensorTypeTemperature, Entity: ipmi.EntityIDDCMIAirInlet, InstanceStart: 1}}
			}}),
		addOp(histOp{Name: "GetDCMICapabilitiesInfo(1)", NetFn: 0x2c, Cmd: 0x01, Data: []byte{0xDC, 0x01},
			New: func() ipmi.Command { return dcmi.NewGetDCMICapabilitiesInfoSupportedCapabilitiesCmd() }}),
		addOp(histOp{Name: "GetPowerReading(enhanced)", NetFn: 0x2c, Cmd: 0x02, Data: []byte{0xDC, 0x02, 0x45, 0x00},
			New: func() ipmi.Command {
				return &dcmi.GetPowerReadingCmd{Req: dcmi.GetPowerReadingReq{Mode: dcmi.SystemPowerStatisticsModeEnhanced, Period: 5 * 60 * 1e9}}
			}}),
	)
}

// c03Judge: everything the BMC received inside the session must be addressed
// to its session, signed, encrypted, padded and parse to the caller's command.
func c03Judge(cfg histCfg, o *histObs, r *rep.R) []finding {
	var out []finding
	add := func(key, f string, a ...any) { out = append(out, finding{"C03/" + key, fmt.Sprintf(f, a...)}) }
	if o.HandshakeErr != "" {
		add("handshake", "handshake failed: %s", o.HandshakeErr)
		return out
	}
	log := o.W.T.Log
	for pos, oi := range cfg.Ops {
		op := histOps[oi]
		res := o.Results[pos]
		if res.Panic != "" {
			add("panic/"+siteKey(res.Panic), "%s panicked: %s", op.Name, res.Panic)
		}
		for k := res.First; k < res.Last; k++ {
			ex := log[k]
			if ex.CtxDone || ex.Rx == nil {
				continue
			}
			rx := ex.Rx
			where := prevAnswerClass(o, cfg, k)
			if rx.Pkt != nil && rx.Pkt.SID != o.SessRemoteID {
				add("session-id/"+where, "%s: datagram carries session ID %#x, the BMC's session ID is %#x", op.Name, rx.Pkt.SID, o.SessRemoteID)
				continue
			}
			for _, p := range rx.Problems {
				add("malformed/"+problemClass(p)+"/"+where, "%s transmission %d under suite %v: %s", op.Name, k-res.First+1, cfg.Suite, p)
			}
			if id := expectIdentity(op, rx, o.SessRemoteID); id != "" && len(rx.Problems) == 0 {
				add("not-the-command/"+where, "%s: %s", op.Name, id)
			}
			if r != nil && rx.Pkt != nil && rx.Plain != nil {
				r.Count(fmt.Sprintf("plaintext_len_mod16=%d", len(rx.Plain)%16), 1)
				r.Count(fmt.Sprintf("payload_len_mod4=%d", len(rx.Pkt.Payload)%4), 1)
				r.Count(fmt.Sprintf("integrity_pad=%d", len(rx.Pkt.Pad)), 1)
			}
		}
	}
	return out
}

// problemClass maps a BMC-side problem text to a stable key fragment.
func problemClass(p string) string {
	for _, k := range []string{"AuthCode", "authenticated flag", "encrypted flag", "session trailer", "confidentiality", "initialisation vector", "sequence number", "IPMI message", "not an active session", "responder address", "requester address", "reserved", "request data"} {
		if strings.Contains(p, k) {
			return strings.ReplaceAll(k, " ", "-")
		}
	}
	return "other"
}

func runC03(r *rep.R) {
	r.SetRule("a case is one execution of a command history on a session (single command + Close for every command/body-length variant incl. caller-defined commands of body length 0..48, and 2-3 command histories over a subset) under one of 9 suites with <= k per-attempt deviations (retransmissions); the reference BMC verifies session ID, flags, AuthCode range and value, integrity pad, AES key and confidentiality pad, checksums, command identity and IV uniqueness on every datagram; distinct = distinct (suite, history, choice vector)")
	var suites []ref.Suite
	for _, a := range []byte{1, 2, 3} {
		for _, i := range []byte{1, 2, 4} {
			suites = append(suites, ref.Suite{Auth: a, Integ: i, Conf: 1})
		}
	}
	var idx int64
	k := 1
	judge := func(cfg histCfg, o *histObs) []finding { return c03Judge(cfg, o, r) }
	for si, s := range suites {
		for _, oi := range c03Ops {
			cfg := histCfg{Suite: s, InSession: true, Ops: []int{oi, opClose}, Horizon: 2, Alphabet: "retry", MenuOps: []int{0}}
			histExploreWith(r, "C03", cfg, k, &idx, judge)
		}
		// histories of 3 commands with retransmissions (IV reuse, sequence, residue)
		if si%4 == 0 || thorough(r) {
			sub := []int{opGetDeviceID, opGetSDR, opPowerReading, c03Ops[53]}
			for _, a := range sub {
				for _, b := range sub {
					for _, c := range sub {
						if !thorough(r) && !(a == b || b == c) {
							continue
						}
						cfg := histCfg{Suite: s, InSession: true, Ops: []int{a, b, c, opClose}, Horizon: 3, Alphabet: "retry"}
						kk := 1
						if thorough(r) {
							kk = 2
						}
						histExploreWith(r, "C03", cfg, kk, &idx, judge)
					}
				}
			}
		}
	}
	// long sessions: IV reuse, counters and buffer reuse only show after many packets
	long := []int{}
	for i := 0; i < 150; i++ {
		long = append(long, []int{opGetDeviceID, opGetSDR, opChassisControl, opPowerReading, c03Ops[7], c03Ops[20], opSessionInfo}[i%7])
	}
	for si, s := range suites {
		if si%4 == 0 || thorough(r) {
			histExploreWith(r, "C03", histCfg{Suite: s, InSession: true, Ops: append(append([]int{}, long...), opClose), Horizon: 2, Alphabet: "retry", StopOnError: true}, 0, &idx, judge)
			histExploreWith(r, "C03", histCfg{Suite: s, InSession: true, Ops: append(append([]int{}, long[:40]...), opClose), Horizon: 2, Alphabet: "retry", MenuOps: []int{0, 13, 27, 39}}, 1, &idx, judge)
		}
	}
	// the same over the library's real transport and a loopback socket: what
	// the BMC receives there (a datagram the transport may send on its own is a
	// datagram with a used IV and sequence number) and the in-memory run must agree
	for _, oi := range []int{opGetDeviceID, opPowerReading, c03Ops[20], opSensorReading} {
		histConform(r, "C03", histCfg{Suite: suites[0], InSession: true, Ops: []int{oi, opClose}, Horizon: 2, Alphabet: "retry"}, 1, &idx)
	}
	// a session of more than 2^16 commands (initialisation vectors, counters)
	vlong := make([]int, 0, 66001)
	for i := 0; i < 66000; i++ {
		vlong = append(vlong, []int{opGetDeviceID, opSystemGUID, opChassisControl, c03Ops[3]}[i%4])
	}
	histExploreWith(r, "C03", histCfg{Suite: suites[0], InSession: true, Ops: append(vlong, opClose), Horizon: 1, Alphabet: "retry", StopOnError: true}, 0, &idx, judge)
	r.Bound("longest_session_commands", 66000)
	r.Bound("long_session_commands", len(long))
	r.Bound("suites", len(suites))
	r.Bound("command_variants", len(c03Ops))
	r.Bound("deviations", k)
	r.Assume("the reference BMC's integrity/confidentiality implementation is independent of the library (crypto/* only) and agrees with it on all nine suites (C01)")
}

// histExploreWith is histExplore with a caller-supplied oracle.
func histExploreWith(r *rep.R, prop string, cfg histCfg, bound int, idx *int64, judge func(histCfg, *histObs) []finding) {
	tag := fmt.Sprintf("%s/%v/%v/%v/%s/%d/%s/%v/%v/%v/%x/%x", prop, cfg.Suite, cfg.InSession, cfg.Ops, cfg.Alphabet, cfg.Horizon, cfg.HSAlphabet, cfg.Discover, cfg.MenuOps, cfg.Prior, cfg.BMCSID, cfg.BMCOutSeq)
	e := &env.Explorer{R: r, Bound: bound, Scenario: tag, Idx: idx,
		Run: func(ch *env.Chooser) any { return runHistory(cfg, ch) },
	}
	e.Check = func(ch *env.Chooser, obs any) {
		o := obs.(*histObs)
		cfg := cfg
		if o.Truncated > 0 {
			cfg.Ops = cfg.Ops[:o.Truncated]
		}
		fs := judge(cfg, o)
		if len(fs) == 0 {
			r.Outcome(histOutcome(o))
			if r.WantSample() && env.Deviations(ch.Choices) > 0 {
				r.Sample(histSample(cfg, ch, o))
			}
			return
		}
		r.Outcome("violation")
		choices := append([]int{}, ch.Choices...)
		for _, f := range fs {
			f := f
			rp := histSample(cfg, ch, o)
			rp.Prop, rp.Key = prop, f.key
			r.Violate(f.key, f.msg, "hist", rp, func() bool {
				for _, g := range judge(cfg, runHistory(cfg, &env.Chooser{Prefix: choices})) {
					if g.key == f.key {
						return true
					}
				}
				return false
			})
		}
	}
	e.Explore()
}
