package checks

import (
	"encoding/json"
	"errors"
	"fmt"
	"strings"

	"github.com/gebn/bmc"
	"github.com/gebn/bmc/pkg/ipmi"

	"verif/ref"
	"verif/rep"
)

// C12: cipher suite used is the caller's first supported preference, never another.

func init() {
	register(&Check{ID: "C12", Run: runC12, Shards: 8, MinOutcomes: 4})
	Replayers["c12"] = func(raw json.RawMessage) (string, bool) {
		var c c12Case
		json.Unmarshal(raw, &c)
		key, msg := c12One(c, nil)
		return fmt.Sprintf("%+v: %s %s", c, key, msg), key != ""
	}
}

// the fifth member (SHA256 / HMAC-SHA1-96 / AES, a non-standard combination the
// library supports) only takes part in the thorough tier's lists
var c12Universe = []ref.Suite{{3, 4, 1}, {1, 1, 1}, {2, 2, 1}, {1, 0, 0}, {3, 1, 1}} // 17, 3, 8, 1, (0x7A)
var c12IDs = []byte{17, 3, 8, 1, 0x7A}

type c12Case struct {
	Prefs    []int      `json:"prefs"`    // indexes into the universe, in preference order
	Adv      int        `json:"adv"`      // bitmask of advertised universe members
	AdvOrder int        `json:"advorder"` // 0 ascending universe order, 1 descending, 2 merged multi-algorithm record
	Announce *ref.Suite `json:"announce"` // triple placed in the Open Session Response (nil: echo the request)
	// Wildcard: bit k set = algorithm payload k of the response is a zero-length wildcard payload
	Wildcard int `json:"wildcard,omitempty"`
	// First: if non-nil, a first session with these preferences is opened and
	// closed on the same connection before the session under test
	First []int `json:"first,omitempty"`
	// AdvShift: this many bytes of other records precede the advertisement
	// (suite 0 - all algorithms None, whose encoding is full of zero bytes -
	// and fillers), so that record and chunk boundaries fall at every offset
	AdvShift int `json:"advshift,omitempty"`
	// LenByte: payload-length byte of algorithm payload LenPayload in the Open
	// Session Response (0: the specified 8)
	LenByte    int `json:"lenbyte,omitempty"`
	LenPayload int `json:"lenpayload,omitempty"`
	// Warmup: this many session-less commands are sent on the connection before
	// the establishment (a long-lived connection)
	Warmup int `json:"warmup,omitempty"`
	// Generic: the session is opened through the version-agnostic NewSession
	// (no preferences can be given there)
	Generic bool `json:"generic,omitempty"`
}

func c12Adv(c c12Case) []byte {
	var recs []ref.CSRecord
	order := []int{0, 1, 2, 3, 4}
	if c.AdvOrder == 1 {
		order = []int{4, 3, 2, 1, 0}
	}
	if c.AdvShift > 0 {
		// suite 0 first (C0 00 00: three bytes, two of them zero), then 3- and
		// 4-byte fillers up to the requested shift
		recs = append(recs, ref.CSRecord{ID: 0, Auth: 0})
		left := c.AdvShift - 3
		id := byte(0x60)
		for left >= 3 {
			f := ref.CSRecord{ID: id, Auth: 0}
			if left%3 != 0 && left >= 4 {
				f.Integs = []byte{0}
			}
			left -= len(f.Encode())
			recs = append(recs, f)
			id++
		}
	}
	recs = append(recs, ref.CSRecord{ID: 0x81, OEM: true, IANA: 343, Auth: 1, Integs: []byte{3}, Confs: []byte{2, 3}})
	for _, i := range order {
		if c.Adv&(1<<i) == 0 {
			continue
		}
		s := c12Universe[i]
		rec := ref.CSRecord{ID: c12IDs[i], Auth: s.Auth}
		if s.Integ != 0 {
			rec.Integs = []byte{s.Integ}
		}
		if s.Conf != 0 {
			rec.Confs = []byte{s.Conf}
		}
		if c.AdvOrder == 2 && s.Integ != 0 {
			// advertise through a record listing several algorithms: the
			// (integrity, confidentiality) cross product contains the suite
			rec.Integs = []byte{3, s.Integ}
			rec.Confs = []byte{s.Conf, 2}
		}
		recs = append(recs, rec)
		if len(recs) == 2 {
			recs = append(recs, ref.CSRecord{ID: 0x90, OEM: true, IANA: 0x00A2B7, Auth: 2})
		}
	}
	return csData(recs...)
}

func c12One(c c12Case, r *rep.R) (string, string) {
	cfg := defaultConfig()
	cfg.CipherSuiteData = c12Adv(c)
	cfg.FollowUnknownAlgs = true
	w := newWorld(cfg, nil, nil)
	// replies are windows into one reused receive buffer, as with the real transport
	w.T.Window, w.T.Poison = true, 0x11
	if c.First != nil {
		var fp []ipmi.CipherSuite
		for _, i := range c.First {
			if i >= 0 { // {-1} stands for the default list
				fp = append(fp, suiteOf(c12Universe[i]))
			}
		}
		if s, err := w.Conn.NewV2Session(w.Ctx, &bmc.V2SessionOpts{SessionOpts: bmc.SessionOpts{Username: "first", Password: cfg.Password, MaxPrivilegeLevel: ipmi.PrivilegeLevelOperator}, CipherSuites: fp}); err == nil {
			s.Close(w.Ctx)
		}
		w.BMC.Log = nil
	}
	w.BMC.Cfg.Announce = c.Announce
	if c.LenByte != 0 {
		w.BMC.Cfg.AnnounceLen[c.LenPayload] = byte(c.LenByte)
	}
	w.T.MaxAttempts = 300
	for i := 0; i < c.Warmup; i++ {
		var err error
		p := guard(func() { _, err = w.Conn.GetSystemGUID(w.Ctx) })
		if p != "" || err != nil {
			return "C12/warmup", fmt.Sprintf("session-less command %d on a connection that answered every request failed: %v %s", i+1, err, p)
		}
	}
	if c.Warmup > 0 {
		w.BMC.Log = nil
	}
	for k := 0; k < 3; k++ {
		w.BMC.Cfg.AnnounceWildcard[k] = c.Wildcard&(1<<k) != 0
	}
	var prefs []ipmi.CipherSuite
	for _, i := range c.Prefs {
		prefs = append(prefs, suiteOf(c12Universe[i]))
	}
	opts := &bmc.V2SessionOpts{
		SessionOpts:  bmc.SessionOpts{Username: "u", Password: cfg.Password, MaxPrivilegeLevel: ipmi.PrivilegeLevelOperator},
		CipherSuites: prefs,
	}
	var sess *bmc.V2Session
	var err error
	var devErr error
	p := guard(func() {
		if c.Generic {
			var gs bmc.Session
			gs, err = w.Conn.NewSession(w.Ctx, &opts.SessionOpts)
			if v, ok := gs.(*bmc.V2Session); ok {
				sess = v
			}
		} else {
			sess, err = w.Conn.NewV2Session(w.Ctx, opts)
		}
		if sess != nil {
			_, devErr = sess.GetDeviceID(w.Ctx)
		}
	})
	if p != "" {
		return "C12/panic/" + siteKey(p), "panic: " + p
	}
	// reference selection model (DESIGN A.4)
	eff := c.Prefs
	if len(eff) == 0 {
		eff = []int{0, 1}
	}
	var want *ref.Suite
	discovery := len(eff) != 1
	if !discovery {
		want = &c12Universe[eff[0]]
	} else {
		for _, i := range eff {
			if c.Adv&(1<<i) != 0 {
				want = &c12Universe[i]
				break
			}
		}
	}
	nDisc, nOpen := 0, 0
	var proposed *ref.Suite
	for _, rx := range w.BMC.Log {
		switch rx.Name {
		case "Get Channel Cipher Suites":
			nDisc++
		case "Open Session Request":
			nOpen++
			if len(rx.Problems) > 0 {
				return "C12/proposal-not-well-formed", fmt.Sprintf("preferences %v: the Open Session Request does not name its algorithms as specified: %s", c.Prefs, strings.Join(rx.Problems, "; "))
			}
			proposed = &ref.Suite{Auth: byte(rx.Fields["auth"]), Integ: byte(rx.Fields["integ"]), Conf: byte(rx.Fields["conf"])}
		}
	}
	if !discovery && nDisc != 0 {
		return "C12/discovery-with-single-suite", fmt.Sprintf("%d discovery requests although exactly one suite was given", nDisc)
	}
	if discovery && nDisc == 0 {
		return "C12/no-discovery", "several acceptable suites but the BMC's list was never requested"
	}
	if want == nil {
		if nOpen != 0 {
			return "C12/proposed-unadvertised", fmt.Sprintf("none of the preferences %v is advertised (mask %04b) but suite %v was proposed", c.Prefs, c.Adv, *proposed)
		}
		if !errors.Is(err, bmc.ErrNoSupportedCipherSuite) {
			return "C12/wrong-error-when-nothing-supported", fmt.Sprintf("error %v, want ErrNoSupportedCipherSuite", err)
		}
		if r != nil {
			r.Outcome("no-supported-suite-error")
		}
		return "", ""
	}
	if proposed == nil {
		return "C12/no-proposal", fmt.Sprintf("expected suite %v to be proposed, but no Open Session Request was sent (err %v)", *want, err)
	}
	if *proposed != *want {
		return "C12/wrong-proposal", fmt.Sprintf("preferences %v, advertised mask %04b (order %d): proposed %v, want %v", c.Prefs, c.Adv, c.AdvOrder, *proposed, *want)
	}
	announced := *want
	if c.Announce != nil {
		announced = *c.Announce
	}
	if c.Wildcard&1 != 0 {
		announced.Auth = 0xFF // a wildcard names no algorithm: it confirms nothing
	}
	if c.Wildcard&2 != 0 {
		announced.Integ = 0xFF
	}
	if c.Wildcard&4 != 0 {
		announced.Conf = 0xFF
	}
	if c.LenByte != 0 && c.LenByte != 8 {
		// the algorithm byte still confirms the proposal; what the library makes
		// of the odd length byte is its business (the property speaks of
		// algorithms) - but it must not panic (checked above), and a session it
		// returns must be for the proposed suite (checked below)
		if sess == nil {
			if r != nil {
				r.Outcome("error-on-unconfirmed-triple")
			}
			return "", ""
		}
	}
	if sess != nil {
		got := ref.Suite{Auth: byte(sess.AuthenticationAlgorithm), Integ: byte(sess.IntegrityAlgorithm), Conf: byte(sess.ConfidentialityAlgorithm)}
		if announced != *want {
			return "C12/downgrade-followed", fmt.Sprintf("proposed %v, BMC confirmed %v: a session with algorithms %v was returned", *want, announced, got)
		}
		if got != *want {
			return "C12/session-algorithms", fmt.Sprintf("session reports %v, proposal and confirmation were %v", got, *want)
		}
		if devErr != nil {
			return "C12/session-unusable", fmt.Sprintf("session for %v returned but Get Device ID fails: %v", got, devErr)
		}
		if r != nil {
			r.Outcome("session-with-proposed-suite")
		}
		return "", ""
	}
	if err == nil {
		return "C12/nil-nil", "neither a session nor an error"
	}
	if announced == *want && want.Integ != 0 && want.Conf != 0 {
		return "C12/refused-confirmed-suite", fmt.Sprintf("BMC confirmed the proposed suite %v but no session was returned: %v", *want, err)
	}
	if r != nil {
		if announced != *want {
			r.Outcome("error-on-unconfirmed-triple")
		} else {
			r.Outcome("error-on-none-suite")
		}
	}
	return "", ""
}

func runC12(r *rep.R) {
	r.SetRule("part A: every ordered preference list over the 4-suite universe {17,3,8,1} (no repetition, and with one repetition) and the empty list, x every advertised subset x 3 advertisement layouts, served through real Get Channel Cipher Suites paging; part B: every proposal x every algorithm triple auth{0,1,2,3,3F} x integ{0,1,2,3,4,3F} x conf{0,1,2,3,3F} in the Open Session Response, the BMC following through with what it announced; distinct = distinct configurations")
	var idx int64
	do := func(c c12Case) {
		idx++
		if !r.Mine(idx) {
			return
		}
		key, msg := c12One(c, r)
		r.Eval(rep.H(fmt.Sprintf("%v|%d|%d|%v|%d|%v|%d|%d|%d|%d", c.Prefs, c.Adv, c.AdvOrder, c.Announce, c.Wildcard, c.First, c.AdvShift, c.LenByte, c.LenPayload, c.Warmup)), true)
		r.Trace()
		if r.WantSample() {
			r.Sample(c)
		}
		if key != "" {
			r.Outcome("violation:" + key)
			r.Violate(key, msg, "c12", c, func() bool { k, _ := c12One(c, nil); return k == key })
		}
	}
	// all ordered lists without repetition
	U := 4
	if thorough(r) {
		U = 5
	}
	var lists [][]int
	var gen func(cur []int, used int)
	gen = func(cur []int, used int) {
		lists = append(lists, append([]int{}, cur...))
		for i := 0; i < U; i++ {
			if used&(1<<i) == 0 {
				gen(append(cur, i), used|1<<i)
			}
		}
	}
	gen(nil, 0)
	// lists with one repetition: [a,a], [a,b,a], [a,a,b]
	for a := 0; a < U; a++ {
		lists = append(lists, []int{a, a})
		for b := 0; b < U; b++ {
			if a != b {
				lists = append(lists, []int{a, b, a}, []int{a, a, b})
			}
		}
	}
	for _, l := range lists {
		for adv := 0; adv < 1<<U; adv++ {
			for order := 0; order < 3; order++ {
				do(c12Case{Prefs: l, Adv: adv, AdvOrder: order})
			}
		}
	}
	// part A': the advertisement preceded by 3..40 bytes of other records (a
	// suite whose encoding ends in zero bytes among them): chunk boundaries at
	// every offset of every record
	for shift := 3; shift <= 40; shift++ {
		for _, l := range [][]int{{0, 1}, {1, 0}, {2, 0, 1}, nil} {
			for _, adv := range []int{0x3, 0x2, 0x1, 0x6} {
				do(c12Case{Prefs: l, Adv: adv, AdvShift: shift})
			}
		}
	}
	// part B
	for _, p := range []int{0, 1, 2} {
		for _, a := range []byte{0, 1, 2, 3, 0x3F} {
			for _, i := range []byte{0, 1, 2, 3, 4, 0x3F} {
				for _, c := range []byte{0, 1, 2, 3, 0x3F} {
					do(c12Case{Prefs: []int{p}, Adv: 0xF, Announce: &ref.Suite{Auth: a, Integ: i, Conf: c}})
				}
			}
		}
	}
	// every value of each 6-bit algorithm field, the other two as proposed
	for _, p := range []int{0, 1, 2} {
		want := c12Universe[p]
		for v := 0; v < 64; v++ {
			for axis := 0; axis < 3; axis++ {
				ann := want
				switch axis {
				case 0:
					ann.Auth = byte(v)
				case 1:
					ann.Integ = byte(v)
				default:
					ann.Conf = byte(v)
				}
				a := ann
				do(c12Case{Prefs: []int{p}, Adv: 0xF, Announce: &a})
			}
		}
	}
	// every value of the payload-length byte of each algorithm payload
	for _, p := range []int{0, 1} {
		for k := 0; k < 3; k++ {
			for lb := 1; lb < 256; lb++ {
				do(c12Case{Prefs: []int{p}, Adv: 0xF, LenByte: lb, LenPayload: k})
			}
		}
	}
	// establishment on a connection that has carried many session-less commands
	// the version-agnostic NewSession (given none: 17, then 3) against every advertised set
	for adv := 0; adv < 1<<len(c12Universe); adv++ {
		for order := 0; order < 3; order++ {
			do(c12Case{Prefs: nil, Adv: adv, AdvOrder: order, Generic: true})
		}
	}
	for _, n := range []int{63, 64, 65, 130, 260} {
		do(c12Case{Prefs: nil, Adv: 0x3, Warmup: n})
		do(c12Case{Prefs: []int{1, 0}, Adv: 0x2, Warmup: n})
	}
	// part B': zero-length (wildcard) algorithm payloads in the response
	for _, p := range []int{0, 1, 2} {
		for wc := 1; wc < 8; wc++ {
			do(c12Case{Prefs: []int{p}, Adv: 0xF, Wildcard: wc})
			do(c12Case{Prefs: []int{p}, Adv: 0xF, Wildcard: wc, Announce: &c12Universe[p]})
		}
	}
	// part B'': a wildcard payload after an earlier (successful or failed) establishment on the same connection
	for _, p := range []int{0, 1, 2} {
		for wc := 1; wc < 8; wc++ {
			for _, f := range [][]int{{p}, {1}, {0, 1}} {
				do(c12Case{Prefs: []int{p}, Adv: 0xF, Wildcard: wc, First: f})
			}
		}
	}
	// part C: a session was opened (and closed) on the same connection before, with
	// other preferences: the choice must not depend on it
	firsts := [][]int{{-1}, {0, 1}, {1, 0}, {2, 1}, {1}, {3, 1}}
	for _, f := range firsts {
		for _, l := range lists {
			if len(l) == 1 || len(l) > 3 {
				continue
			}
			for _, adv := range []int{0x3, 0x2, 0x7, 0x6, 0xF, 0x8} {
				do(c12Case{Prefs: l, Adv: adv, AdvOrder: 0, First: f})
			}
		}
		do(c12Case{Prefs: nil, Adv: 0x3, First: f})
		do(c12Case{Prefs: nil, Adv: 0x2, First: f})
	}
	// part B through the default list and discovery as well
	for _, a := range []byte{1, 3} {
		for _, i := range []byte{0, 1, 4} {
			for _, c := range []byte{0, 1} {
				do(c12Case{Prefs: nil, Adv: 0x3, Announce: &ref.Suite{Auth: a, Integ: i, Conf: c}})
				do(c12Case{Prefs: []int{1, 0}, Adv: 0x3, Announce: &ref.Suite{Auth: a, Integ: i, Conf: c}})
			}
		}
	}
	r.Bound("preference_lists", len(lists))
	r.Bound("advertised_subsets", 1<<U)
	r.Bound("response_triples", "150 over {0,1,2,3,(4),0x3F}^3 plus all 64 values of each field with the other two as proposed")
	r.Assume("the BMC follows through with the algorithms it announced, so a library that silently accepts a changed triple is observed succeeding")
	r.Assume("suites with None integrity/confidentiality may be refused with an error (C01/C12 allow it)")
}
