package checks

import (
	"context"
	"encoding/json"
	"fmt"
	"net"
	"strings"
	"sync"
	"time"

	"github.com/cenkalti/backoff/v4"
	"github.com/gebn/bmc"
	"github.com/gebn/bmc/pkg/dcmi"
	"github.com/gebn/bmc/pkg/ipmi"

	"verif/env"
	"verif/ref"
	"verif/rep"
)

// C13: blocking calls never outlive their context.

func init() {
	register(&Check{ID: "C13", Run: runC13, Shards: 16, MinOutcomes: 4})
	Replayers["c13"] = func(raw json.RawMessage) (string, bool) {
		var c c13Case
		json.Unmarshal(raw, &c)
		if c.Real {
			k, msg, _ := c13Real(c)
			return fmt.Sprintf("%+v: %s %s", c, k, msg), k != ""
		}
		k, msg, _ := c13Virtual(c)
		return fmt.Sprintf("%+v: %s %s", c, k, msg), k != ""
	}
}

type c13Case struct {
	Call    string `json:"call"`
	Pattern string `json:"pattern"`
	Step    int    `json:"step"`    // the pattern applies from this send of the call onward
	Once    bool   `json:"once"`    // ... or only at that send
	DeadMS  int    `json:"dead_ms"` // context deadline (virtual or real); per-attempt timeout is 1000 ms virtual / 100 ms real
	Expired bool   `json:"expired"` // context already expired at entry
	Real    bool   `json:"real"`
	// TimeoutMS: real mode per-attempt timeout (0 = 100 ms)
	TimeoutMS int `json:"timeout_ms,omitempty"`
}

var c13Calls = []string{"sessionless-command", "new-session", "new-session-discovery", "session-command", "session-close", "retrieve-sdrs", "retrieve-cipher-suites", "dcmi-sensor-info",
	// the same calls at a later point of an object's life
	"session-close-after-failed-close", "new-session-with-3-open", "new-session-with-4-open", "new-session-with-6-open",
	// a handshake that ends in "incorrect password" (whatever the library does to
	// tidy up the half-open session is bound by the caller's context too)
	"new-session-wrong-password"}
var c13Patterns = []string{"black-hole", "late-reply", "garbage", "temporary-code", "truncated",
	// a healthy BMC whose SDR repository reports a newer timestamp at every look
	// (only meaningful for retrieve-sdrs; honest elsewhere)
	"repository-keeps-changing",
	// every reply arrives twice: the copies pile up in the socket
	"duplicate",
	// a healthy BMC whose cipher-suite record data fills every one of the 64
	// list indexes with a full chunk (only meaningful for the discovery calls)
	"cipher-suite-list-never-ends",
	// an authenticated-flag wrapper followed by 300 bytes of 0xFF (the integrity pad byte)
	"garbage-long-pad-run",
	// handshake replies (and response bodies) one byte short
	"truncated-by-one",
	// the honest reply with both IPMI message checksums wrong in ways that cancel
	"garbage-compensating-checksums",
	// a healthy BMC whose cipher-suite record data is followed by zero padding
	"cipher-suite-list-zero-padded"}

// c13LongSuites: 2048 bytes of valid cipher-suite records, suite 3 among them.
func c13LongSuites() []byte {
	var d []byte
	for len(d) < 2048 {
		d = append(d, csRec3.Encode()...)
		d = append(d, csRecOEM.Encode()...)
	}
	return d[:2048]
}

// c13Answer returns the environment's answer for a faulty send.
func c13Answer(p string) env.Answer {
	switch p {
	case "black-hole":
		return env.LostReply()
	case "late-reply":
		return env.LateReply()
	case "duplicate":
		return env.Duplicate()
	case "cipher-suite-list-never-ends":
		a := env.Honest()
		a.Name = "cipher-suite-list-never-ends"
		a.Pre = func(t *env.Transport) {
			if len(t.BMC.Cfg.CipherSuiteData) < 2048 {
				t.BMC.Cfg.CipherSuiteData = c13LongSuites()
			}
		}
		return a
	case "garbage-long-pad-run":
		return env.Raw("garbage-long-pad-run", func(t *env.Transport, rx *ref.Rx) []byte {
			return cat([]byte{0x06, 0x00, 0xFF, 0x07, 0x06, 0x40, 1, 0, 0, 0, 2, 0, 0, 0, 4, 0, 9, 9, 9, 9}, pattern(300, 0xFF, 0), []byte{0x02, 0x07}, pattern(12, 0x11, 1))
		})
	case "garbage-compensating-checksums":
		return env.Raw("garbage-compensating-checksums", func(t *env.Transport, rx *ref.Rx) []byte {
			if rx == nil || rx.Msg == nil {
				return nil // setup payloads carry no message: nothing arrives
			}
			m := ref.ResponseTo(rx.Msg, rx.CC, rx.Body)
			m[2]++
			m[len(m)-1]--
			return t.BMC.WrapIPMI(rx.Sess, m)
		})
	case "truncated-by-one":
		return env.Raw("truncated-by-one", func(t *env.Transport, rx *ref.Rx) []byte {
			if rx == nil {
				return nil
			}
			if rx.ReplyPayload != nil && len(rx.ReplyPayload) > 0 {
				return ref.BuildPacket(rx.ReplyPType, false, 0, 0, rx.ReplyPayload[:len(rx.ReplyPayload)-1], nil)
			}
			if rx.Msg != nil && len(rx.Body) > 0 {
				return t.BMC.Respond(rx, rx.CC, rx.Body[:len(rx.Body)-1])
			}
			return nil
		})
	case "cipher-suite-list-zero-padded":
		a := env.Honest()
		a.Name = "cipher-suite-list-zero-padded"
		a.Pre = func(t *env.Transport) {
			d := t.BMC.Cfg.CipherSuiteData
			if len(d) == 0 || d[len(d)-1] != 0 {
				t.BMC.Cfg.CipherSuiteData = append(append([]byte{}, d...), 0, 0, 0)
			}
		}
		return a
	case "garbage":
		return env.Raw("garbage", func(t *env.Transport, rx *ref.Rx) []byte { return []byte{0x06, 0x00, 0xFF, 0x07, 0x06, 0x00, 0x01} })
	case "temporary-code":
		a := env.Code("temporary-code", 0xC0)
		inner := a.Apply
		a.Apply = func(t *env.Transport, rx *ref.Rx) {
			if rx != nil && rx.Msg == nil {
				return // setup payloads have no completion code: behaves like a black hole
			}
			inner(t, rx)
		}
		return a
	case "repository-keeps-changing":
		a := env.Honest()
		a.Name = "repository-keeps-changing"
		a.Pre = func(t *env.Transport) {
			if t.BMC.Cfg.Repo != nil {
				t.BMC.Cfg.Repo.KeepReservation = true
				t.BMC.Cfg.Repo.LastAdd++ // newer addition timestamp, content and reservation untouched
			}
		}
		return a
	default: // truncated
		return env.Raw("truncated", func(t *env.Transport, rx *ref.Rx) []byte {
			if rx == nil {
				return nil
			}
			if rx.ReplyPayload != nil {
				return ref.BuildPacket(rx.ReplyPType, false, 0, 0, rx.ReplyPayload[:len(rx.ReplyPayload)/3], nil)
			}
			if rx.Msg != nil {
				body := rx.Body
				if rx.Msg.NetFn == 0x2c && len(body) > 0 {
					body = body[:1]
				} else {
					body = nil
				}
				return t.BMC.Respond(rx, rx.CC, body)
			}
			return nil
		})
	}
}

// c13Run performs the call; prep (session establishment) happens before the
// fault window opens. Returns the error of the call under test.
func c13Run(call string, conn *bmc.V2SessionlessTransport, password []byte, ctx func() context.Context, begin func()) (err error, valid bool) {
	opts := &bmc.V2SessionOpts{SessionOpts: bmc.SessionOpts{Username: "c13", Password: password, MaxPrivilegeLevel: ipmi.PrivilegeLevelUser}, CipherSuites: []ipmi.CipherSuite{ipmi.CipherSuite3}}
	needSession := call == "session-command" || call == "session-close" || call == "retrieve-sdrs" || call == "dcmi-sensor-info" || call == "session-close-after-failed-close"
	if strings.HasPrefix(call, "new-session-with-") {
		var k int
		fmt.Sscanf(call, "new-session-with-%d-open", &k)
		for i := 0; i < k; i++ {
			if _, e := conn.NewV2Session(context.Background(), opts); e != nil {
				return fmt.Errorf("harness: opening session %d failed: %v", i+1, e), false
			}
		}
	}
	var sess *bmc.V2Session
	if needSession {
		s, e := conn.NewV2Session(context.Background(), opts)
		if e != nil {
			return fmt.Errorf("harness: session setup failed: %v", e), false
		}
		sess = s
	}
	begin()
	c := ctx()
	switch call {
	case "sessionless-command":
		_, err = conn.GetSystemGUID(c)
	case "new-session", "new-session-with-3-open", "new-session-with-4-open", "new-session-with-6-open":
		_, err = conn.NewV2Session(c, opts)
	case "new-session-wrong-password":
		o := *opts
		o.Password = append([]byte("not-"), password...)
		_, err = conn.NewV2Session(c, &o)
	case "new-session-discovery":
		o := *opts
		o.CipherSuites = nil
		_, err = conn.NewV2Session(c, &o)
	case "session-command":
		_, err = sess.GetDeviceID(c)
	case "session-close":
		err = sess.Close(c)
	case "session-close-after-failed-close":
		sess.Close(c) // whatever this returns, the next Close is the call under test
		err = sess.Close(c)
	case "retrieve-sdrs":
		_, err = bmc.RetrieveSDRRepository(c, sess)
	case "retrieve-cipher-suites":
		_, err = bmc.RetrieveSupportedCipherSuites(c, conn)
	case "dcmi-sensor-info":
		_, err = dcmi.GetSensorInfo(c, sess)
	}
	return err, true
}

func c13Config() ref.Config {
	cfg := defaultConfig()
	cfg.Repo = histRepo()
	cfg.DCMISensors = map[byte][]uint16{0x37: {1, 2, 3}, 0x03: {4}, 0x07: {}}
	cfg.DCMIPageSize = 2
	return cfg
}

// c13Virtual runs one case in virtual time over the in-memory transport.
func c13Virtual(c c13Case) (key, msg, outcome string) {
	cfg := c13Config()
	clock := &env.Clock{Deadline: time.Duration(c.DeadMS) * time.Millisecond}
	w := newWorld(cfg, nil, nil)
	w.T.SleepQuantum = 250 * time.Millisecond
	w.T.Timeout = time.Second
	started := false
	sendNo := 0
	runaway := false
	w.T.Menu = func(t *env.Transport, req []byte) []env.Answer {
		if !started {
			return []env.Answer{env.Honest()}
		}
		n := sendNo
		sendNo++
		if sendNo > 4000 {
			runaway = true
			clock.Expire()
		}
		if n == c.Step || (!c.Once && n > c.Step) {
			return []env.Answer{c13Answer(c.Pattern)}
		}
		return []env.Answer{env.Honest()}
	}
	var err error
	var valid bool
	var p string
	finished := make(chan struct{})
	go func() {
		defer close(finished)
		p = guard(func() {
			err, valid = c13Run(c.Call, w.Conn, cfg.Password, func() context.Context {
				return w.Ctx
			}, func() {
				// the fault window and the clock start with the call under test
				started = true
				w.T.Clock = clock
				w.Ctx, w.Cancel = newCtx()
				clock.Cancel = w.Cancel
				backoff.VerifSleep = w.T.Sleep
				if c.Expired {
					clock.Expire()
				}
			})
		})
	}()
	what := fmt.Sprintf("%s, %s from send %d (once=%v), deadline %d ms, expired-at-entry=%v", c.Call, c.Pattern, c.Step, c.Once, c.DeadMS, c.Expired)
	select {
	case <-finished:
	case <-time.After(8 * time.Second):
		// every wait the library may make goes through an owned seam and costs no
		// real time; still being blocked means it waits on something the
		// context cannot interrupt (the goroutine is abandoned)
		return "C13/blocks-outside-context-control/" + c.Call + "/" + c.Pattern, what + ": the call is blocked in real time (8 s) although all transport and back-off waits are virtual: it waits on something its context does not bound", ""
	}
	if strings.HasPrefix(p, "RUNAWAY") {
		return "C13/keeps-going-after-expiry/" + c.Call, what + ": " + p, ""
	}
	if p != "" {
		return "C13/panic/" + siteKey(p), what + ": " + p, ""
	}
	if !valid {
		return "C13/harness", err.Error(), ""
	}
	if runaway {
		return "C13/does-not-return/" + c.Call + "/" + c.Pattern, what + ": more than 4000 transmissions without the call returning although virtual time passed the deadline", ""
	}
	for i, ex := range w.T.Log {
		if ex.Err == env.ErrNotDescendant {
			return "C13/attempt-context-not-derived-from-callers/" + c.Call, fmt.Sprintf("%s: transmission %d was made with a context that is not bound to the caller's context", what, i), ""
		}
	}
	if w.T.DeadCtxSends > 0 {
		return "C13/retry-on-used-up-attempt-context/" + c.Call, fmt.Sprintf("%s: %d transmissions attempted with a per-attempt context whose deadline had already passed", what, w.T.DeadCtxSends), ""
	}
	if clock.UnboundSleepsCrossing > 0 {
		return "C13/backoff-sleep-not-bound-to-context/" + c.Call, fmt.Sprintf("%s: the deadline fell during a back-off sleep whose context is not derived from the caller's: the sleep (exponentially growing, up to a minute) runs to its end whatever the deadline", what), ""
	}
	if clock.SleepsAfterExpiry > 0 {
		return "C13/backoff-sleep-after-expiry/" + c.Call, fmt.Sprintf("%s: %d back-off sleeps were started after the context had expired", what, clock.SleepsAfterExpiry), ""
	}
	if clock.SendsAfterExpiry > 8 {
		return "C13/transmissions-after-expiry/" + c.Call, fmt.Sprintf("%s: %d transmissions attempted after the context had expired", what, clock.SendsAfterExpiry), ""
	}
	if clock.Expired && err == nil {
		return "C13/success-after-expiry/" + c.Call, what + ": the context expired during the call, yet it reported success", ""
	}
	// success requires valid responses: with a sticky fault from send Step on,
	// the call cannot have obtained what it needed unless it needed nothing more
	honestN := c13HonestSends(c.Call)
	if !c.Once && c.Step < honestN && err == nil && !c13Tolerates(c) {
		return "C13/success-without-valid-response/" + c.Call + "/" + c.Pattern, what + ": success reported although no valid response was delivered from that send on", ""
	}
	switch {
	case err == nil:
		return "", "", "virtual:success-with-valid-responses"
	case clock.Expired:
		return "", "", "virtual:error-at-or-before-deadline"
	default:
		return "", "", "virtual:error-before-deadline"
	}
}

// c13Tolerates reports patterns under which success remains possible.
func c13Tolerates(c c13Case) bool {
	// a late reply is still a valid response: the retransmission's read
	// returns it, so the call may legitimately succeed
	if c.Pattern == "late-reply" || c.Pattern == "duplicate" {
		return true
	}
	if c.Pattern == "repository-keeps-changing" && c.Call != "retrieve-sdrs" {
		return true // every reply is the honest one
	}
	if c.Pattern == "cipher-suite-list-never-ends" || c.Pattern == "cipher-suite-list-zero-padded" {
		return true // every reply is a valid one (whether the list is accepted is not C13's business)
	}
	if c.Pattern == "truncated-by-one" && (strings.HasPrefix(c.Call, "session-close") || c.Call == "session-command" || c.Call == "sessionless-command" || c.Call == "retrieve-sdrs" || c.Call == "dcmi-sensor-info" || c.Call == "retrieve-cipher-suites") {
		// one byte less of a response body may still be a complete body (optional
		// tails, list chunks); only handshake replies have exact lengths
		return true
	}
	// Close Session has no response body: "truncated" is the honest reply
	return c.Pattern == "truncated" && strings.HasPrefix(c.Call, "session-close")
}

var c13HonestCache = map[string]int{}

func c13HonestSends(call string) int {
	if n, ok := c13HonestCache[call]; ok {
		return n
	}
	cfg := c13Config()
	w := newWorld(cfg, nil, nil)
	n := 0
	started := false
	w.T.Menu = func(t *env.Transport, req []byte) []env.Answer {
		if started {
			n++
		}
		return []env.Answer{env.Honest()}
	}
	done := make(chan struct{})
	go func() {
		defer close(done)
		guard(func() {
			c13Run(call, w.Conn, cfg.Password, func() context.Context { return w.Ctx }, func() { started = true })
		})
	}()
	select {
	case <-done:
	case <-time.After(8 * time.Second):
		// even with an honest BMC the call (or its preparation) does not come back
		c13HonestCache[call] = -1
		return -1
	}
	c13HonestCache[call] = n
	return n
}

// ---- real sockets ----------------------------------------------------------------

type udpBMC struct {
	conn *net.UDPConn
	bmc  *ref.BMC
	mu   sync.Mutex
	// fault window
	started bool
	sendNo  int
	c       c13Case
	wg      sync.WaitGroup
}

func newUDPBMC(cfg ref.Config) (*udpBMC, error) {
	conn, err := net.ListenUDP("udp", &net.UDPAddr{IP: net.IPv4(127, 0, 0, 1)})
	if err != nil {
		return nil, err
	}
	u := &udpBMC{conn: conn, bmc: ref.NewBMC(cfg)}
	u.wg.Add(1)
	go u.serve()
	return u, nil
}

// lateDelay is how long a "late" reply is held: past the per-attempt timeout.
func (u *udpBMC) lateDelay() time.Duration {
	if u.c.TimeoutMS > 0 {
		return time.Duration(u.c.TimeoutMS)*time.Millisecond + 60*time.Millisecond
	}
	return 160 * time.Millisecond
}

func (u *udpBMC) addr() string { return u.conn.LocalAddr().String() }

func (u *udpBMC) close() { u.conn.Close(); u.wg.Wait() }

func (u *udpBMC) serve() {
	defer u.wg.Done()
	buf := make([]byte, 2048)
	for {
		n, from, err := u.conn.ReadFromUDP(buf)
		if err != nil {
			return
		}
		req := append([]byte{}, buf[:n]...)
		u.mu.Lock()
		faulty := false
		if u.started {
			k := u.sendNo
			u.sendNo++
			faulty = k == u.c.Step || (!u.c.Once && k > u.c.Step)
		}
		if faulty && u.c.Pattern == "cipher-suite-list-never-ends" && len(u.bmc.Cfg.CipherSuiteData) < 2048 {
			u.bmc.Cfg.CipherSuiteData = c13LongSuites()
		}
		if faulty && u.c.Pattern == "cipher-suite-list-zero-padded" {
			if d := u.bmc.Cfg.CipherSuiteData; len(d) == 0 || d[len(d)-1] != 0 {
				u.bmc.Cfg.CipherSuiteData = append(append([]byte{}, d...), 0, 0, 0)
			}
		}
		if faulty && u.c.Pattern == "repository-keeps-changing" && u.bmc.Cfg.Repo != nil {
			u.bmc.Cfg.Repo.KeepReservation = true
			u.bmc.Cfg.Repo.LastAdd++
		}
		rx := u.bmc.Receive(req)
		var reply []byte
		delay := time.Duration(0)
		if !faulty {
			reply = u.bmc.Honest(rx)
		} else {
			switch u.c.Pattern {
			case "repository-keeps-changing":
				reply = u.bmc.Honest(rx)
			case "cipher-suite-list-never-ends", "cipher-suite-list-zero-padded":
				reply = u.bmc.Honest(rx)
			case "garbage-long-pad-run":
				reply = cat([]byte{0x06, 0x00, 0xFF, 0x07, 0x06, 0x40, 1, 0, 0, 0, 2, 0, 0, 0, 4, 0, 9, 9, 9, 9}, pattern(300, 0xFF, 0), []byte{0x02, 0x07}, pattern(12, 0x11, 1))
			case "garbage-compensating-checksums":
				if rx.Msg != nil {
					m := ref.ResponseTo(rx.Msg, rx.CC, rx.Body)
					m[2]++
					m[len(m)-1]--
					reply = u.bmc.WrapIPMI(rx.Sess, m)
				}
			case "truncated-by-one":
				if rx.ReplyPayload != nil && len(rx.ReplyPayload) > 0 {
					reply = ref.BuildPacket(rx.ReplyPType, false, 0, 0, rx.ReplyPayload[:len(rx.ReplyPayload)-1], nil)
				} else if rx.Msg != nil && len(rx.Body) > 0 {
					reply = u.bmc.Respond(rx, rx.CC, rx.Body[:len(rx.Body)-1])
				}
			case "duplicate":
				reply = u.bmc.Honest(rx)
				if reply != nil {
					u.conn.WriteToUDP(reply, from)
				}
			case "black-hole":
			case "late-reply":
				reply, delay = u.bmc.Honest(rx), u.lateDelay()
			case "garbage":
				reply = []byte{0x06, 0x00, 0xFF, 0x07, 0x06, 0x00, 0x01}
			case "temporary-code":
				if rx.Msg != nil {
					var body []byte
					if rx.Msg.NetFn == 0x2c && len(rx.Msg.Data) > 0 {
						body = []byte{rx.Msg.Data[0]}
					}
					reply = u.bmc.Respond(rx, 0xC0, body)
				}
			default:
				if rx.ReplyPayload != nil {
					reply = ref.BuildPacket(rx.ReplyPType, false, 0, 0, rx.ReplyPayload[:len(rx.ReplyPayload)/3], nil)
				} else if rx.Msg != nil {
					body := rx.Body
					if rx.Msg.NetFn == 0x2c && len(body) > 0 {
						body = body[:1]
					} else {
						body = nil
					}
					reply = u.bmc.Respond(rx, rx.CC, body)
				}
			}
		}
		u.mu.Unlock()
		if reply != nil {
			if delay > 0 {
				r, f := reply, from
				time.AfterFunc(delay, func() { u.conn.WriteToUDP(r, f) })
			} else {
				u.conn.WriteToUDP(reply, from)
			}
		}
	}
}

const c13Allowance = 250 * time.Millisecond

// c13Real replays one case over UDP loopback with real timers: hook-free
// DialV2, the stock exponential back-off, per-attempt timeout 100 ms.
func c13Real(c c13Case) (key, msg, outcome string) {
	what := fmt.Sprintf("[real sockets] %s, %s from send %d (once=%v), deadline %d ms, expired-at-entry=%v", c.Call, c.Pattern, c.Step, c.Once, c.DeadMS, c.Expired)
	overruns := 0
	var worst time.Duration
	var lastErr error
	for attempt := 0; attempt < 5; attempt++ {
		backoff.VerifSleep = nil // upstream back-off behaviour, real timers
		u, err := newUDPBMC(c13Config())
		if err != nil {
			return "C13/harness", err.Error(), ""
		}
		pat := 100 * time.Millisecond
		if c.TimeoutMS > 0 {
			pat = time.Duration(c.TimeoutMS) * time.Millisecond
		}
		conn, err := bmc.DialV2(u.addr(), bmc.WithTimeout(pat))
		if err != nil {
			u.close()
			return "C13/harness", err.Error(), ""
		}
		var start time.Time
		var cancel context.CancelFunc
		dl := time.Duration(c.DeadMS) * time.Millisecond
		type result struct {
			err   error
			valid bool
		}
		done := make(chan result, 1)
		go func() {
			e, v := c13RunReal(c, conn, u, &start, &cancel, &dl)
			done <- result{e, v}
		}()
		var valid bool
		select {
		case r := <-done:
			err, valid = r.err, r.valid
		case <-time.After(dl + 6*time.Second):
			// the goroutine is abandoned (it cannot be interrupted); report
			return "C13/real/does-not-return/" + c.Call + "/" + c.Pattern, what + ": the call had not returned 6 s after its deadline", ""
		}
		took := time.Since(start)
		if cancel != nil {
			cancel()
		}
		conn.Close()
		u.close()
		if !valid {
			return "C13/harness", err.Error(), ""
		}
		lastErr = err
		if took > worst {
			worst = took
		}
		honestN := c13HonestSends(c.Call)
		if !c.Once && c.Step < honestN && err == nil && !c13Tolerates(c) {
			return "C13/real/success-without-valid-response/" + c.Call + "/" + c.Pattern, what + ": success reported although no valid response was sent from that request on", ""
		}
		if c.Expired && err == nil {
			return "C13/real/success-with-expired-context/" + c.Call, what, ""
		}
		if took <= dl+c13Allowance {
			if err == nil {
				return "", "", "real:success-within-deadline"
			}
			return "", "", "real:error-within-deadline+allowance"
		}
		overruns++
	}
	return "C13/real/overrun/" + c.Call + "/" + c.Pattern, fmt.Sprintf("%s: returned %v after the call started on each of 5 runs (deadline + %v allowance exceeded every time); last error: %v", what, worst, c13Allowance, lastErr), ""
}

func runC13(r *rep.R) {
	r.SetRule("a case is (blocking call, fault pattern, the send of the call from which the pattern applies - sticky or once -, deadline/timeout ratio, expired-at-entry). Virtual time: lost replies charge the per-attempt timeout (1 s) and back-off sleeps a 250 ms quantum to a virtual clock that expires the caller's context at the deadline (0.5 s, 1 s, 3.5 s: ratio <1, =1, >1), so every point at which the deadline can fall is enumerated; oracle: no back-off sleep and at most a bounded number of (immediately failing) transmissions after expiry, per-attempt contexts derived from the caller's, error unless valid responses were delivered, the call returns. Real sockets: the same cases replayed hook-free over UDP loopback with real timers; oracle: return <= deadline + 250 ms, confirmed on 5 runs before reporting.")
	var idx int64
	blocked := map[string]bool{}
	do := func(c c13Case) {
		idx++
		if !r.Mine(idx) {
			return
		}
		if blocked[c.Call+"/"+c.Pattern] && !c.Real {
			return // already reported as blocking; each further case would cost 8 s
		}
		var k, msg, out string
		if c.Real {
			k, msg, out = c13Real(c)
		} else {
			k, msg, out = c13Virtual(c)
		}
		r.Eval(rep.H(fmt.Sprint(c)), true)
		r.Trace()
		if k != "" {
			r.Outcome("violation")
			if strings.HasPrefix(k, "C13/blocks-outside-context-control") {
				blocked[c.Call+"/"+c.Pattern] = true
			}
			r.Violate(k, msg, "c13", c, nil)
			return
		}
		r.Outcome(out)
		if r.WantSample() && c.Step > 0 {
			r.Sample(c)
		}
	}
	for _, call := range c13Calls {
		n := c13HonestSends(call)
		if n < 0 {
			if r.Shard == 0 {
				r.Violate("C13/blocks-outside-context-control/"+call+"/honest-bmc", call+": with an honest BMC and a live context the call (or the preparation it needs) is still blocked after 8 s of real time although every transport and back-off wait is virtual", "c13", c13Case{Call: call, Pattern: "honest"}, nil)
				r.Outcome("violation")
			}
			continue
		}
		for _, p := range c13Patterns {
			for step := 0; step <= n; step++ {
				for _, once := range []bool{false, true} {
					if once && step == n {
						continue
					}
					dls := []int{500, 1000, 3500}
					if thorough(r) {
						// every quarter second up to 8 s: the deadline falls at every
						// boundary between attempts (1 s) and back-off sleeps (250 ms)
						dls = nil
						for d := 250; d <= 8000; d += 250 {
							dls = append(dls, d)
						}
					}
					for _, dl := range dls {
						do(c13Case{Call: call, Pattern: p, Step: step, Once: once, DeadMS: dl})
					}
				}
			}
		}
		for _, dl := range []int{500, 3500} {
			do(c13Case{Call: call, Pattern: "black-hole", Step: 1 << 20, DeadMS: dl, Expired: true})
		}
	}
	// real-socket replay
	for _, call := range c13Calls {
		n := c13HonestSends(call)
		if n < 0 {
			continue
		}
		for _, p := range c13Patterns {
			steps := []int{0}
			deadlines := []int{300}
			if thorough(r) {
				steps = nil
				for s := 0; s < n; s++ {
					steps = append(steps, s)
				}
				deadlines = []int{50, 100, 300, 700}
			} else if n > 2 {
				steps = append(steps, n-1)
			}
			for _, step := range steps {
				for _, dl := range deadlines {
					do(c13Case{Call: call, Pattern: p, Step: step, DeadMS: dl, Real: true})
				}
			}
		}
		do(c13Case{Call: call, Pattern: "black-hole", Step: 1 << 20, DeadMS: 300, Expired: true, Real: true})
		// deadline much shorter than the per-attempt timeout: any wait sized by
		// the per-attempt timeout rather than by the context overruns visibly
		for _, p := range c13Patterns {
			do(c13Case{Call: call, Pattern: p, Step: 0, DeadMS: 120, TimeoutMS: 900, Real: true})
			if n > 1 {
				do(c13Case{Call: call, Pattern: p, Step: n - 1, DeadMS: 120, TimeoutMS: 900, Real: true})
			}
		}
	}
	r.Assume("virtual time: a lost reply costs exactly the per-attempt timeout and a back-off sleep a fixed 250 ms quantum (the real jitter is nondeterministic); expiry is modelled as a deadline, not a cancellation")
	r.Assume("real sockets: 250 ms scheduling allowance, an overrun is only reported if it repeats on 5 consecutive runs")
}

// c13RunReal performs the real-socket call (factored out so a watchdog can
// abandon it if it never returns).
func c13RunReal(c c13Case, conn *bmc.V2SessionlessTransport, u *udpBMC, start *time.Time, cancel *context.CancelFunc, dl *time.Duration) (error, bool) {
	return c13Run(c.Call, conn, u.bmc.Cfg.Password, func() context.Context {
		var ctx context.Context
		if c.Expired {
			ctx, *cancel = context.WithDeadline(context.Background(), time.Now().Add(-time.Second))
			*dl = 0
		} else {
			ctx, *cancel = context.WithTimeout(context.Background(), *dl)
		}
		*start = time.Now()
		return ctx
	}, func() {
		u.mu.Lock()
		u.started, u.c = true, c
		u.mu.Unlock()
	})
}
