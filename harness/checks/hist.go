package checks

import (
	"fmt"
	"net"
	"os"
	"reflect"
	"syscall"
	"time"

	"github.com/gebn/bmc"
	"github.com/gebn/bmc/pkg/dcmi"
	"github.com/gebn/bmc/pkg/ipmi"
	"github.com/google/gopacket"

	"verif/env"
	"verif/ref"
)

// ---- command alphabet --------------------------------------------------------

type histOp struct {
	Name  string
	New   func() ipmi.Command
	NetFn byte
	Cmd   byte
	LUN   byte
	Data  []byte // request data the BMC must receive (incl. DCMI body code)
	// NoSerialise: the request cannot be serialised; nothing may be transmitted.
	NoSerialise bool
	// CloseSession: issued through Session.Close.
	Close bool
	// Custom: a high-level call (SDR retrieval, discovery, DCMI enumeration)
	// instead of a single SendCommand; returns a rendering of its result.
	Custom func(w *World, conn bmc.Connection, sess *bmc.V2Session) (string, error)
}

func fsrBytes(id uint16, num byte, name string) []byte {
	body := make([]byte, 43)
	body[0] = 0x20
	body[2] = num
	body[3] = 0x07
	body[4] = 0x01
	body[7] = 0x01
	body[8] = 0x01
	body[15] = 0x80
	body[16] = 0x01
	body[19] = 0x02
	body[42] = 0xC0 | byte(len(name))
	body = append(body, name...)
	hdr := []byte{byte(id), byte(id >> 8), 0x51, 0x01, byte(len(body))}
	return append(hdr, body...)
}

// fsrBytesPacked is fsrBytes with the ID string in BCD-plus (typ 1, codes are
// nibbles) or 6-bit packed ASCII (typ 2, codes are 6-bit values).
func fsrBytesPacked(id uint16, num byte, typ byte, codes []byte) []byte {
	b := fsrBytes(id, num, "")
	var data []byte
	switch typ {
	case 1:
		data = make([]byte, (len(codes)+1)/2)
		for i, v := range codes {
			if i%2 == 0 {
				data[i/2] |= (v & 0xf) << 4
			} else {
				data[i/2] |= v & 0xf
			}
		}
	case 2:
		data = make([]byte, (len(codes)*6+7)/8)
		for i, v := range codes {
			for k := 0; k < 6; k++ {
				if v&(1<<k) != 0 {
					data[(i*6+k)/8] |= 1 << ((i*6 + k) % 8)
				}
			}
		}
	}
	b[5+42] = typ<<6 | byte(len(codes))
	b = append(b, data...)
	b[4] = byte(len(b) - 5)
	return b
}

func histRepo() *ref.Repo {
	return &ref.Repo{LastAdd: 1000, LastErase: 900, Recs: []ref.SDRRec{
		{ID: 0x0001, Data: fsrBytes(0x0001, 1, "CPU Temp")},
		{ID: 0x0005, Data: append([]byte{0x05, 0x00, 0x51, 0x11, 0x0B}, pattern(11, 0x30, 1)...)},
		{ID: 0x0102, Data: fsrBytes(0x0102, 2, "Inlet")},
	}}
}

func histConfig(suite ref.Suite) ref.Config {
	cfg := defaultConfig()
	cfg.Repo = histRepo()
	// several pages per entity, so that a reply can disagree with an earlier page
	cfg.DCMISensors = map[byte][]uint16{0x37: {0x0011, 0x0012, 0x0013}, 0x03: {0x0021}, 0x07: {}}
	cfg.DCMIPageSize = 2
	// algorithms only the BMC knows: it completes RAKP for them (observable if
	// the library accepts a suite it cannot compute)
	cfg.FollowUnknownAlgs = true
	_ = suite
	return cfg
}

var histOps = []histOp{
	{Name: "GetDeviceID", New: func() ipmi.Command { return &ipmi.GetDeviceIDCmd{} }, NetFn: 0x06, Cmd: 0x01},
	{Name: "ChassisControl", New: func() ipmi.Command {
		return &ipmi.ChassisControlCmd{Req: ipmi.ChassisControlReq{ChassisControl: ipmi.ChassisControlPowerCycle}}
	}, NetFn: 0x00, Cmd: 0x02, Data: []byte{2}},
	{Name: "GetSDR", New: func() ipmi.Command {
		return &ipmi.GetSDRCmd{Req: ipmi.GetSDRReq{RecordID: 0x0005, Offset: 0, Length: 5}}
	}, NetFn: 0x0a, Cmd: 0x23, Data: []byte{0, 0, 5, 0, 0, 5}},
	{Name: "SetSessionPrivilegeLevel", New: func() ipmi.Command {
		return &ipmi.SetSessionPrivilegeLevelCmd{Req: ipmi.SetSessionPrivilegeLevelReq{PrivilegeLevel: ipmi.PrivilegeLevelAdministrator}}
	}, NetFn: 0x06, Cmd: 0x3b, Data: []byte{4}},
	{Name: "GetPowerReading", New: func() ipmi.Command {
		return &dcmi.GetPowerReadingCmd{Req: dcmi.GetPowerReadingReq{Mode: dcmi.SystemPowerStatisticsModeNormal}}
	}, NetFn: 0x2c, Cmd: 0x02, Data: []byte{0xDC, 1, 0, 0}},
	{Name: "GetChassisStatus", New: func() ipmi.Command { return &ipmi.GetChassisStatusCmd{} }, NetFn: 0x00, Cmd: 0x01},
	{Name: "SetPrivCallback(unserialisable)", New: func() ipmi.Command {
		return &ipmi.SetSessionPrivilegeLevelCmd{Req: ipmi.SetSessionPrivilegeLevelReq{PrivilegeLevel: ipmi.PrivilegeLevelCallback}}
	}, NetFn: 0x06, Cmd: 0x3b, NoSerialise: true},
	{Name: "GetSensorReading", New: func() ipmi.Command {
		return &ipmi.GetSensorReadingCmd{Req: ipmi.GetSensorReadingReq{Number: 2}, OwnerLUN: 1}
	}, NetFn: 0x04, Cmd: 0x2d, LUN: 1, Data: []byte{2}},
	{Name: "GetSystemGUID", New: func() ipmi.Command { return &ipmi.GetSystemGUIDCmd{} }, NetFn: 0x06, Cmd: 0x37},
	{Name: "GetSessionInfo", New: func() ipmi.Command {
		return &ipmi.GetSessionInfoCmd{Req: ipmi.GetSessionInfoReq{Index: ipmi.SessionIndexID, ID: 0xAABBCCDD}}
	}, NetFn: 0x06, Cmd: 0x3d, Data: []byte{0xFF, 0xDD, 0xCC, 0xBB, 0xAA}},
	{Name: "GetChannelAuthCaps", New: func() ipmi.Command {
		return &ipmi.GetChannelAuthenticationCapabilitiesCmd{Req: ipmi.GetChannelAuthenticationCapabilitiesReq{ExtendedData: true, Channel: ipmi.ChannelPresentInterface, MaxPrivilegeLevel: ipmi.PrivilegeLevelAdministrator}}
	}, NetFn: 0x06, Cmd: 0x38, Data: []byte{0x8E, 0x04}},
	{Name: "Close", Close: true, NetFn: 0x06, Cmd: 0x3c},
}

const (
	opGetDeviceID = iota
	opChassisControl
	opGetSDR
	opSetPriv
	opPowerReading
	opChassisStatus
	opUnserialisable
	opSensorReading
	opSystemGUID
	opSessionInfo
	opAuthCaps
	opClose
)

// ---- answers -------------------------------------------------------------------

// ansClass is how the reference retry model classifies an answer.
type ansClass int

const (
	clsFinal       ansClass = iota // valid message, non-temporary code
	clsTemporary                   // valid message, temporary code
	clsUndecodable                 // delivered but not a valid response message
	clsNothing                     // nothing delivered
	clsExpire                      // context expires during this attempt
)

type histAnswer struct {
	env.Answer
	Class   ansClass
	Code    byte // for clsFinal/clsTemporary: completion code; 0 = the BMC's own
	Own     bool // use the BMC's honest code/body
	BodyErr bool // body is cut so that body decoding fails (only meaningful for commands with a response body)
}

func rawGarbage(name string, f func(t *env.Transport, rx *ref.Rx) []byte) histAnswer {
	return histAnswer{Answer: env.Raw(name, f), Class: clsUndecodable}
}

// retryAlphabet is the per-attempt outcome alphabet of C09/C10.
func retryAlphabet(inSession bool, w *World) []histAnswer {
	a := []histAnswer{
		{Answer: env.Honest(), Class: clsFinal, Own: true},
		{Answer: env.Code("final-c1", 0xC1), Class: clsFinal, Code: 0xC1},
		{Answer: env.Code("node-busy", 0xC0), Class: clsTemporary, Code: 0xC0},
		{Answer: env.Code("timeout-code", 0xC3), Class: clsTemporary, Code: 0xC3},
		{Answer: busyOtherRMCPSeq(), Class: clsTemporary, Code: 0xC0},
		rawGarbage("garbage-short-rmcp", func(t *env.Transport, rx *ref.Rx) []byte { return []byte{0x06, 0x00, 0xFF} }),
		rawGarbage("garbage-bad-checksum", func(t *env.Transport, rx *ref.Rx) []byte {
			if rx == nil || rx.Msg == nil {
				return []byte{0x06, 0, 0xFF, 0x07, 0x06, 0}
			}
			m := ref.ResponseTo(rx.Msg, 0, rx.Body)
			m[len(m)-1] ^= 0x55
			return t.BMC.WrapIPMI(rx.Sess, m)
		}),
		{Answer: env.Raw("truncated-body", func(t *env.Transport, rx *ref.Rx) []byte {
			if rx == nil || rx.Msg == nil {
				return nil
			}
			body := rx.Body
			if rx.Msg.NetFn == 0x2c {
				if len(body) > 1 {
					body = body[:1] // keep the body code, so the message layer still decodes
				}
			} else {
				body = nil
			}
			return t.BMC.Respond(rx, rx.CC, body)
		}), Class: clsFinal, Own: true, BodyErr: true},
		{Answer: env.LostReply(), Class: clsNothing},
		// the read fails with a socket error other than a timeout (what the kernel
		// reports on a connected UDP socket after an ICMP "host unreachable")
		{Answer: env.SocketError("socket-error-no-route-to-host", &net.OpError{Op: "read", Net: "udp", Err: os.NewSyscallError("recvfrom", syscall.EHOSTUNREACH)}), Class: clsNothing},
		// a UDP datagram with no payload at all
		rawGarbage("zero-length-datagram", func(t *env.Transport, rx *ref.Rx) []byte { return []byte{} }),
		// an RMCP acknowledgement (class byte with the ACK bit, no data) and nothing else
		rawGarbage("rmcp-ack-and-no-reply", func(t *env.Transport, rx *ref.Rx) []byte { return []byte{0x06, 0x00, 0x00, 0x87} }),
		// a datagram larger than the 512-byte receive buffer
		rawGarbage("garbage-600-bytes", func(t *env.Transport, rx *ref.Rx) []byte { return pattern(600, 0xA5, 0) }),
		// the valid reply to a caller-defined command, its body sized so that the
		// datagram is exactly as large as the receive buffer (the honest reply for
		// other commands)
		{Answer: env.Raw("ok-datagram-of-exactly-512-bytes", func(t *env.Transport, rx *ref.Rx) []byte {
			if rx == nil {
				return nil
			}
			if rx.Msg == nil || rx.Msg.NetFn != 0x30 {
				return t.BMC.Honest(rx)
			}
			seq := uint32(0)
			if rx.Sess != nil {
				seq = rx.Sess.OutSeq
			}
			for n := 380; n < 500; n++ {
				if rx.Sess != nil {
					rx.Sess.OutSeq = seq
				}
				if d := t.BMC.Respond(rx, rx.CC, pattern(n, 0x5C, 1)); len(d) == 512 {
					return d
				}
			}
			if rx.Sess != nil {
				rx.Sess.OutSeq = seq
			}
			return t.BMC.Honest(rx)
		}), Class: clsFinal, Own: true},
	}
	if inSession {
		a = append(a, rawGarbage("bad-signature", func(t *env.Transport, rx *ref.Rx) []byte {
			d := t.BMC.Honest(rx)
			if len(d) > 0 {
				d[len(d)-1] ^= 0x01
			}
			return d
		}), rawGarbage("unsigned-reply-with-a-far-ahead-sequence-number", func(t *env.Transport, rx *ref.Rx) []byte {
			if rx == nil || rx.Sess == nil || rx.Msg == nil {
				return nil
			}
			return ref.BuildPacket(ref.PTIPMI, false, rx.Sess.HS.SIDM, 0xFFFFFFF0, ref.ResponseTo(rx.Msg, 0, rx.Body), nil)
		}), rawGarbage("signature-one-byte-short", func(t *env.Transport, rx *ref.Rx) []byte {
			d := t.BMC.Honest(rx)
			if len(d) > 0 {
				d = d[:len(d)-1]
			}
			return d
		}))
	} else {
		a = append(a, histAnswer{Answer: env.LostRequest(), Class: clsNothing})
	}
	a = append(a, histAnswer{Answer: env.Answer{Name: "context-expires", Apply: func(t *env.Transport, rx *ref.Rx) { w.Cancel() }}, Class: clsExpire})
	return a
}

// ---- running a history ---------------------------------------------------------

type histCfg struct {
	Suite     ref.Suite `json:"suite"`
	InSession bool      `json:"in_session"`
	Ops       []int     `json:"ops"`
	Horizon   int       `json:"horizon"`
	// MenuOps: positions in Ops at which the answer menu is offered (nil: all)
	MenuOps  []int  `json:"menu_ops,omitempty"`
	Alphabet string `json:"alphabet"`
	// HSAlphabet, if set, offers a menu at the handshake's sends too.
	HSAlphabet string `json:"hs_alphabet,omitempty"`
	// Discover: give two acceptable suites so the handshake starts with discovery.
	Discover bool `json:"discover,omitempty"`
	// FlipLen: length of the authentic reply, for bit-flip/truncation menus.
	FlipLen int `json:"flip_len,omitempty"`
	// Prior: before the session under test another session is opened, used
	// once and closed on the same connection (same suite and credentials); the
	// BMC hands out distinct session IDs
	Prior bool `json:"prior,omitempty"`
	// BMCSID, if non-zero, is the managed-system session ID the BMC hands out;
	// BMCOutSeq the number its own (outbound) session sequence starts after
	BMCSID    uint32 `json:"bmc_sid,omitempty"`
	BMCOutSeq uint32 `json:"bmc_out_seq,omitempty"`
	// StopOnError: the history ends at the first operation that returns an error
	// (long undisturbed sessions: what follows a failure adds nothing)
	StopOnError bool `json:"stop_on_error,omitempty"`
	// UDP: run over the library's real transport and a loopback socket
	// (newWorldUDP) instead of the in-memory transport.
	UDP bool `json:"udp,omitempty"`
}

type opResult struct {
	Code   byte
	ErrNil bool
	Err    string
	Rsp    string
	Panic  string
	// what the environment did during this op
	Answers []string
	Classes []ansClass
	// exchanges of this op (indexes into the transport log)
	First, Last int
}

type histObs struct {
	HandshakeErr       string
	Results            []opResult
	W                  *World
	SeqAfter           uint32
	SessRemoteID       uint32
	SessLocalID        uint32
	HandshakeExchanges int
	BS                 *ref.Session
	HS                 opResult // answers given during the handshake
	SessOK             bool
	KeysOK             bool
	Infra              string // harness-side failure (socket could not be opened)
	// Truncated: with StopOnError, the number of operations that were run
	Truncated int
}

// histMenu builds the menu function for an alphabet name; checks register
// additional alphabets here.
var histAlphabets = map[string]func(cfg histCfg, w *World) []histAnswer{
	"retry": func(cfg histCfg, w *World) []histAnswer {
		a := retryAlphabet(cfg.InSession, w)
		if cfg.Suite.Integ == 0 {
			// without a negotiated integrity algorithm an unsigned reply is a valid one
			var out []histAnswer
			for _, x := range a {
				if x.Answer.Name != "unsigned-reply-with-a-far-ahead-sequence-number" {
					out = append(out, x)
				}
			}
			return out
		}
		return a
	},
	// every completion code as the final answer
	"codes": func(cfg histCfg, w *World) []histAnswer {
		a := []histAnswer{{Answer: env.Honest(), Class: clsFinal, Own: true}}
		for cc := 1; cc < 256; cc++ {
			cls := clsFinal
			if cc == 0xC0 || cc == 0xC3 {
				cls = clsTemporary
			}
			a = append(a, histAnswer{Answer: env.Code(fmt.Sprintf("code-%02x", cc), byte(cc)), Class: cls, Code: byte(cc)})
		}
		return a
	},
	"handshake": func(cfg histCfg, w *World) []histAnswer { return handshakeAlphabet(w) },
}

// handshakeAlphabet is the per-attempt outcome alphabet for RMCP+ setup
// payloads (and the session-less discovery commands before them).
func handshakeAlphabet(w *World) []histAnswer {
	return []histAnswer{
		{Answer: env.Honest(), Class: clsFinal, Own: true},
		rawGarbage("garbage-short-rmcp", func(t *env.Transport, rx *ref.Rx) []byte { return []byte{0x06, 0x00} }),
		rawGarbage("garbage-v15-wrapper", func(t *env.Transport, rx *ref.Rx) []byte {
			return append([]byte{0x06, 0x00, 0xFF, 0x07, 0x00, 0, 0, 0, 0, 0, 0, 0, 0, 0x07}, ref.BuildMsg(0x81, 0x07, 0, 0x20, 1, 0, 0x38, []byte{0})...)
		}),
		rawGarbage("garbage-length-exceeds", func(t *env.Transport, rx *ref.Rx) []byte {
			d := t.BMC.Honest(rx)
			if len(d) > 16 {
				d = d[:len(d)-3]
			}
			return d
		}),
		// a reply that is rejected only after its wrapper was read: session ID and
		// sequence number non-zero (a late packet of an earlier session), length
		// field beyond the data
		rawGarbage("rejected-reply-with-nonzero-wrapper-ids", func(t *env.Transport, rx *ref.Rx) []byte {
			d := ref.BuildPacket(ref.PTIPMI, false, 0x01020304, 0x2a, ref.BuildMsg(0x81, 0x07, 0, 0x20, 1, 0, 0x01, pattern(12, 1, 1)), nil)
			return d[:len(d)-3]
		}),
		rawGarbage("zero-length-datagram", func(t *env.Transport, rx *ref.Rx) []byte { return []byte{} }),
		{Answer: env.LostReply(), Class: clsNothing},
		{Answer: env.LostRequest(), Class: clsNothing},
		// a duplicate of an earlier session-less command reply is still in the
		// socket: a valid packet, but not the payload that was asked for
		// (the BMC's own reply to this attempt is lost, so nothing is left over
		// in the socket for later payloads)
		{Answer: env.Answer{Name: "stale-command-reply-instead", Apply: func(t *env.Transport, rx *ref.Rx) {
			stale := ref.BuildMsg(0x81, 0x07, 0, 0x20, 1, 0, 0x38, append([]byte{0}, t.BMC.Cfg.AuthCaps...))
			t.Enqueue(ref.BuildPacket(ref.PTIPMI, false, 0, 0, stale, nil), "stale-ipmi")
		}}, Class: clsUndecodable},
		// the honest payload, but the BMC fills the (unused) session ID and
		// sequence fields of the session-less wrapper with non-zero values
		{Answer: env.Raw("honest-with-nonzero-wrapper-ids", func(t *env.Transport, rx *ref.Rx) []byte {
			if rx == nil {
				return nil
			}
			if rx.ReplyPayload != nil {
				return ref.BuildPacket(rx.ReplyPType, false, 0x01020304, 7, rx.ReplyPayload, nil)
			}
			if rx.Msg != nil && (rx.Sess == nil || !rx.Sess.Active) {
				return ref.BuildPacket(ref.PTIPMI, false, 0x01020304, 7, ref.ResponseTo(rx.Msg, rx.CC, rx.Body), nil)
			}
			return t.BMC.Honest(rx)
		}), Class: clsFinal, Own: true},
		{Answer: env.Raw("truncated-payload", func(t *env.Transport, rx *ref.Rx) []byte {
			if rx == nil {
				return nil
			}
			if rx.ReplyPayload != nil {
				return ref.BuildPacket(rx.ReplyPType, false, 0, 0, rx.ReplyPayload[:len(rx.ReplyPayload)/2], nil)
			}
			if rx.Msg != nil {
				return t.BMC.Respond(rx, rx.CC, nil)
			}
			return nil
		}), Class: clsFinal, BodyErr: true},
		{Answer: env.Answer{Name: "context-expires", Apply: func(t *env.Transport, rx *ref.Rx) { w.Cancel() }}, Class: clsExpire},
	}
}

func runHistory(cfg histCfg, ch *env.Chooser) *histObs {
	bcfg := histConfig(cfg.Suite)
	if cfg.BMCSID != 0 {
		bcfg.SIDC = cfg.BMCSID
	}
	sid := bcfg.SIDC
	if cfg.Prior {
		bcfg.DistinctSIDs = true
		sid++
	}
	var w *World
	if cfg.UDP {
		var err error
		if w, err = newWorldUDP(bcfg, ch); err != nil {
			return &histObs{HandshakeErr: "harness: " + err.Error(), Infra: err.Error()}
		}
		defer w.Close()
	} else {
		w = newWorld(bcfg, ch, nil)
	}
	o := &histObs{W: w}
	w.T.MaxAttempts = 300 // per operation, the handshake included: a correct retry loop ends long before
	var conn bmc.Connection = w.Conn
	var sess *bmc.V2Session
	if cfg.InSession && cfg.Prior {
		guard(func() {
			if s0, err := w.Conn.NewV2Session(w.Ctx, &bmc.V2SessionOpts{
				SessionOpts:  bmc.SessionOpts{Username: "hist", Password: bcfg.Password, MaxPrivilegeLevel: ipmi.PrivilegeLevelAdministrator},
				CipherSuites: histPrefs(cfg),
			}); err == nil {
				s0.GetDeviceID(w.Ctx)
				s0.Close(w.Ctx)
			}
		})
		w.quiesce()
	}
	if cfg.InSession {
		var err error
		if cfg.HSAlphabet != "" {
			hsAlpha := histAlphabets[cfg.HSAlphabet](cfg, w)
			w.T.Horizon = cfg.Horizon
			pts := map[byte]int{}
			w.T.Menu = func(t *env.Transport, req []byte) []env.Answer {
				if len(req) > 5 {
					// the attempt horizon applies per handshake payload
					pt := req[5] & 0x3f
					pts[pt]++
					if pts[pt] > cfg.Horizon {
						return []env.Answer{env.Honest()}
					}
				}
				out := make([]env.Answer, len(hsAlpha))
				for i := range hsAlpha {
					a := hsAlpha[i]
					ans := a.Answer
					inner := ans.Apply
					ans.Apply = func(t *env.Transport, rx *ref.Rx) {
						o.HS.Answers = append(o.HS.Answers, a.Name)
						o.HS.Classes = append(o.HS.Classes, a.Class)
						if inner != nil {
							inner(t, rx)
						}
					}
					out[i] = ans
				}
				return out
			}
			w.T.Horizon = 0
		}
		p := guard(func() {
			sess, err = w.Conn.NewV2Session(w.Ctx, &bmc.V2SessionOpts{
				SessionOpts:  bmc.SessionOpts{Username: "hist", Password: bcfg.Password, MaxPrivilegeLevel: ipmi.PrivilegeLevelAdministrator},
				CipherSuites: histPrefs(cfg),
			})
		})
		w.quiesce()
		o.HandshakeExchanges = len(w.T.Log)
		w.T.Menu = nil
		if p != "" || err != nil {
			o.HandshakeErr = fmt.Sprintf("%v %s", err, p)
			o.HS.Panic = p
			return o
		}
		o.SessOK = true
		if bs := w.BMC.Sessions[sid]; bs != nil && bs.Active {
			o.KeysOK = string(sess.SIK) == string(bs.SIK) && string(sess.K(1)) == string(bs.K1) && string(sess.K(2)) == string(bs.K2)
		}
		if w.Ctx.Err() != nil {
			w.Ctx, w.Cancel = newCtx()
		}
		conn = sess
		o.SessRemoteID, o.SessLocalID = sess.RemoteID, sess.LocalID
		o.BS = w.BMC.Sessions[sid]
		if o.BS != nil && cfg.BMCOutSeq != 0 {
			o.BS.OutSeq = cfg.BMCOutSeq
		}
	}
	o.HandshakeExchanges = len(w.T.Log)
	alphaFn := histAlphabets[cfg.Alphabet]
	var alpha []histAnswer
	if alphaFn != nil {
		alpha = alphaFn(cfg, w)
	}
	curOp := -1
	menuOn := func(pos int) bool {
		if cfg.MenuOps == nil {
			return true
		}
		for _, p := range cfg.MenuOps {
			if p == pos {
				return true
			}
		}
		return false
	}
	w.T.Horizon = cfg.Horizon
	w.T.MaxAttempts = 300 // single commands and short walks; a correct retry loop ends long before
	w.T.Menu = func(t *env.Transport, req []byte) []env.Answer {
		if alpha == nil || curOp < 0 || !menuOn(curOp) {
			return []env.Answer{env.Honest()}
		}
		out := make([]env.Answer, len(alpha))
		for i := range alpha {
			a := alpha[i]
			ans := a.Answer
			inner := ans.Apply
			ans.Apply = func(t *env.Transport, rx *ref.Rx) {
				r := &o.Results[curOp]
				r.Answers = append(r.Answers, a.Name)
				r.Classes = append(r.Classes, a.Class)
				if inner != nil {
					inner(t, rx)
				}
			}
			out[i] = ans
		}
		return out
	}
	o.Results = make([]opResult, len(cfg.Ops))
	for pos, oi := range cfg.Ops {
		op := histOps[oi]
		curOp = pos
		w.beginOp()
		r := &o.Results[pos]
		r.First = len(w.T.Log)
		nAnswersBefore := len(r.Answers)
		_ = nAnswersBefore
		if op.Close {
			var err error
			r.Panic = guard(func() { err = sess.Close(w.Ctx) })
			r.ErrNil = err == nil
			if err != nil {
				r.Err = err.Error()
			}
		} else if op.Custom != nil {
			var err error
			r.Panic = guard(func() { r.Rsp, err = op.Custom(w, conn, sess) })
			r.ErrNil = err == nil
			if err != nil {
				r.Err = err.Error()
			}
		} else {
			cmd := op.New()
			var code ipmi.CompletionCode
			var err error
			r.Panic = guard(func() { code, err = conn.SendCommand(w.Ctx, cmd) })
			r.Code, r.ErrNil = byte(code), err == nil
			if err != nil {
				r.Err = err.Error()
			}
			if rsp := cmd.Response(); rsp != nil && err == nil {
				r.Rsp = canonNamed(reflect.ValueOf(rsp))
			}
		}
		w.quiesce()
		r.Last = len(w.T.Log)
		// horizon bookkeeping: exchanges beyond the menu horizon were honest
		for k := r.First + len(r.Answers); k < r.Last; k++ {
			ex := w.T.Log[k]
			if ex.CtxDone {
				continue
			}
			r.Answers = append(r.Answers, "ok(horizon)")
			r.Classes = append(r.Classes, clsFinal)
		}
		if w.Ctx.Err() != nil {
			// the caller's context is spent: later operations run with a fresh one
			w.Ctx, w.Cancel = newCtx()
		}
		if cfg.StopOnError && (!r.ErrNil || r.Panic != "") && pos+1 < len(cfg.Ops) {
			o.Truncated = pos + 1
			o.Results = o.Results[:pos+1]
			break
		}
	}
	curOp = -1
	if sess != nil {
		o.SeqAfter = sess.AuthenticatedSequenceNumbers.Inbound
	}
	return o
}

// expectIdentity checks that a received request is the caller's command.
func expectIdentity(op histOp, rx *ref.Rx, sessID uint32) string {
	if rx == nil {
		return ""
	}
	if rx.Msg == nil {
		return fmt.Sprintf("not a decodable request: %v", rx.Problems)
	}
	m := rx.Msg
	want := op.Data
	if op.Close {
		want = []byte{byte(sessID), byte(sessID >> 8), byte(sessID >> 16), byte(sessID >> 24)}
	}
	if m.NetFn != op.NetFn || m.Cmd != op.Cmd || m.LUN1 != op.LUN || string(m.Data) != string(want) {
		return fmt.Sprintf("BMC received NetFn %#02x cmd %#02x LUN %d data % x, caller asked for NetFn %#02x cmd %#02x LUN %d data % x", m.NetFn, m.Cmd, m.LUN1, m.Data, op.NetFn, op.Cmd, op.LUN, want)
	}
	if m.Addr1 != 0x20 || m.Addr2 != 0x81 {
		return fmt.Sprintf("addresses rs=%#02x rq=%#02x, want 20/81", m.Addr1, m.Addr2)
	}
	return ""
}

var _ = gopacket.NilDecodeFeedback
var _ = time.Second

func histPrefs(cfg histCfg) []ipmi.CipherSuite {
	if cfg.Discover {
		// the BMC advertises 3 and 17 (defaultConfig); a third, unadvertised
		// first preference forces the discovery walk to matter
		return []ipmi.CipherSuite{suiteOf(ref.Suite{Auth: 2, Integ: 3, Conf: 2}), suiteOf(cfg.Suite), ipmi.CipherSuite3}
	}
	return []ipmi.CipherSuite{suiteOf(cfg.Suite)}
}
