package checks

import (
	"context"
	"encoding/json"
	"fmt"
	"github.com/gebn/bmc"
	"github.com/gebn/bmc/pkg/ipmi"
	"reflect"
	"strings"
	"time"

	"verif/env"
	"verif/ref"
	"verif/rep"
)

// C11: a result always comes from a response to the command that was sent.

func init() {
	register(&Check{ID: "C11", Run: runC11, Shards: 16, MinOutcomes: 3})
	histAlphabets["queue"] = queueAlphabet
	histJudges["C11"] = c11Judge
	// a group-extension command whose defining body code is 00h (PICMG) and whose
	// command number (01h) also exists in other network functions
	opPICMG = addOp(histOp{Name: "PICMG.GetAddressInfo", NetFn: 0x2c, Cmd: 0x01, Data: []byte{0x00, 0x00},
		New: func() ipmi.Command {
			return &rawCmd{op: ipmi.Operation{Function: ipmi.NetworkFunctionGroupReq, Body: ipmi.BodyCode(0x00), Command: 0x01}, body: []byte{0x00}}
		}})
	Replayers["c11none"] = func(raw json.RawMessage) (string, bool) {
		var c c11NoneCase
		json.Unmarshal(raw, &c)
		k, msg := c11None(c)
		return k + " " + msg, k != ""
	}
	Replayers["c11long"] = func(raw json.RawMessage) (string, bool) {
		var c c11LongCase
		json.Unmarshal(raw, &c)
		k, msg := c11Long(c)
		return fmt.Sprintf("%s %s", k, msg), k != ""
	}
}

// queueAlphabet models what a UDP socket can do to replies: delay them past
// the per-attempt timeout, duplicate them, reorder them, or carry a stray
// valid reply of another command.
func queueAlphabet(cfg histCfg, w *World) []histAnswer {
	var held [][]byte
	flush := func(t *env.Transport) {
		for _, h := range held {
			t.Enqueue(h, "held")
		}
		held = nil
	}
	honest := env.Answer{Name: "ok", Apply: func(t *env.Transport, rx *ref.Rx) {
		if b := t.BMC.Honest(rx); b != nil {
			t.Enqueue(b, fmt.Sprintf("honest:%d", len(t.Log)-1))
		}
		flush(t)
	}}
	stray := func(name string, netfn, cmd byte, body []byte) histAnswer {
		return histAnswer{Answer: env.Answer{Name: name, Apply: func(t *env.Transport, rx *ref.Rx) {
			if rx == nil || rx.Msg == nil {
				return
			}
			if rx.Msg.NetFn == netfn && rx.Msg.Cmd == cmd {
				// a stray reply of the same command is indistinguishable by
				// NetFn/command; the property does not speak about it
				if b := t.BMC.Honest(rx); b != nil {
					t.Enqueue(b, fmt.Sprintf("honest:%d", len(t.Log)-1))
				}
				return
			}
			fake := *rx
			m := *rx.Msg
			m.NetFn, m.Cmd = netfn, cmd
			fake.Msg = &m
			t.Enqueue(t.BMC.Respond(&fake, 0, body), "stray:"+name)
			if b := t.BMC.Honest(rx); b != nil {
				t.Enqueue(b, fmt.Sprintf("honest:%d", len(t.Log)-1))
			}
		}}, Class: clsFinal}
	}
	// the BMC refuses the command with a permanent error code, and that reply is
	// duplicated / arrives late: the stray copy carries a non-normal code
	refused := func(name string, late, dup bool) histAnswer {
		a := env.Answer{Name: name, Late: late, Apply: func(t *env.Transport, rx *ref.Rx) {
			if rx == nil || rx.Msg == nil {
				return
			}
			var body []byte
			if rx.Msg.NetFn == 0x2c && len(rx.Msg.Data) > 0 {
				body = []byte{rx.Msg.Data[0]}
			}
			t.Enqueue(t.BMC.Respond(rx, 0xD4, body), fmt.Sprintf("refused:%d", len(t.Log)-1))
			if dup {
				t.Enqueue(t.BMC.Respond(rx, 0xD4, body), fmt.Sprintf("refused-dup:%d", len(t.Log)-1))
			}
		}}
		return histAnswer{Answer: a, Class: clsFinal, Code: 0xD4}
	}
	return []histAnswer{
		{Answer: honest, Class: clsFinal, Own: true},
		refused("refused-d4-duplicated", false, true),
		refused("refused-d4-late", true, false),
		{Answer: env.LateReply(), Class: clsNothing},
		{Answer: env.Duplicate(), Class: clsFinal, Own: true},
		{Answer: env.Answer{Name: "held-until-after-next-reply", Apply: func(t *env.Transport, rx *ref.Rx) {
			if b := t.BMC.Honest(rx); b != nil {
				held = append(held, b)
			}
		}}, Class: clsNothing},
		// stray replies carry the BMC's true answer to that command, so that one
		// consumed later by the same command (indistinguishable by NetFn/command,
		// and not covered by the property) cannot look like a wrong value
		stray("stray-system-guid-reply-first", 0x06, 0x37, w.BMC.Cfg.SystemGUID[:]),
		stray("stray-chassis-status-reply-first", 0x00, 0x01, w.BMC.Cfg.Chassis),
		// a reply of the command numbered 00h of the same network function ahead of the real one
		{Answer: env.Answer{Name: "stray-command-00-of-the-same-netfn-first", Apply: func(t *env.Transport, rx *ref.Rx) {
			if rx == nil || rx.Msg == nil {
				return
			}
			if rx.Msg.Cmd != 0 {
				fake := *rx
				m := *rx.Msg
				m.Cmd = 0
				fake.Msg = &m
				body := []byte{0x7F, 0x20, 0x20, 0x20, 0x20}
				if m.NetFn == 0x2c && len(m.Data) > 0 {
					body = append([]byte{m.Data[0]}, body...)
				}
				t.Enqueue(t.BMC.Respond(&fake, 0, body), "stray:command-00")
			}
			if b := t.BMC.Honest(rx); b != nil {
				t.Enqueue(b, fmt.Sprintf("honest:%d", len(t.Log)-1))
			}
		}}, Class: clsFinal},
		// the request itself comes back (request-direction message, correctly wrapped), then the real reply
		{Answer: env.Answer{Name: "own-request-echoed-back-first", Apply: func(t *env.Transport, rx *ref.Rx) {
			if rx == nil || rx.Msg == nil {
				return
			}
			m := rx.Msg
			t.Enqueue(t.BMC.WrapIPMI(rx.Sess, ref.BuildMsg(m.Addr1, m.NetFn, m.LUN1, m.Addr2, m.Seq, m.LUN2, m.Cmd, m.Data)), "stray:echo")
			if b := t.BMC.Honest(rx); b != nil {
				t.Enqueue(b, fmt.Sprintf("honest:%d", len(t.Log)-1))
			}
		}}, Class: clsFinal},
		// only the echo comes back
		{Answer: env.Answer{Name: "own-request-echoed-back-only", Apply: func(t *env.Transport, rx *ref.Rx) {
			if rx == nil || rx.Msg == nil {
				return
			}
			m := rx.Msg
			t.Enqueue(t.BMC.WrapIPMI(rx.Sess, ref.BuildMsg(m.Addr1, m.NetFn, m.LUN1, m.Addr2, m.Seq, m.LUN2, m.Cmd, m.Data)), "stray:echo")
		}}, Class: clsNothing},
		// a stray reply of another command that carries a temporary code, and nothing else
		{Answer: env.Answer{Name: "stray-busy-reply-of-another-command-only", Apply: func(t *env.Transport, rx *ref.Rx) {
			if rx == nil || rx.Msg == nil {
				return
			}
			fake := *rx
			m := *rx.Msg
			m.NetFn, m.Cmd = 0x06, 0x01
			if rx.Msg.NetFn == 0x06 && rx.Msg.Cmd == 0x01 {
				m.Cmd = 0x37
			}
			fake.Msg = &m
			t.Enqueue(t.BMC.Respond(&fake, 0xC0, nil), "stray:busy")
		}}, Class: clsNothing},
		// ... and the caller's context ends while the library waits before retrying
		{Answer: env.Answer{Name: "stray-busy-reply-of-another-command-then-context-ends-in-backoff", Apply: func(t *env.Transport, rx *ref.Rx) {
			if rx == nil || rx.Msg == nil {
				return
			}
			fake := *rx
			m := *rx.Msg
			m.NetFn, m.Cmd = 0x06, 0x01
			if rx.Msg.NetFn == 0x06 && rx.Msg.Cmd == 0x01 {
				m.Cmd = 0x37
			}
			fake.Msg = &m
			t.Enqueue(t.BMC.Respond(&fake, 0xC0, nil), "stray:busy")
			w.CancelAtNextSleep = true
		}}, Class: clsExpire},
		{Answer: env.LostReply(), Class: clsNothing},
		// ordinary retry causes mixed with the socket events above
		{Answer: env.Code("node-busy", 0xC0), Class: clsTemporary, Code: 0xC0},
		{Answer: env.Answer{Name: "context-expires", Apply: func(t *env.Transport, rx *ref.Rx) { w.Cancel() }}, Class: clsExpire},
	}
}

var opPICMG int

// c11LongCase: a long-lived connection or session. The reply to command Hold
// is duplicated; the copy stays somewhere in the network and arrives Gap
// commands later, ahead of that command's own reply.
type c11LongCase struct {
	InSession bool `json:"in_session"`
	Hold      int  `json:"hold"`
	Gap       int  `json:"gap"`
}

func c11Long(c c11LongCase) (string, string) {
	cfg := histConfig(ref.Suite{Auth: 1, Integ: 1, Conf: 1})
	w := newWorld(cfg, nil, nil)
	var conn bmc.Connection = w.Conn
	if c.InSession {
		s, err := w.Conn.NewV2Session(w.Ctx, &bmc.V2SessionOpts{SessionOpts: bmc.SessionOpts{Username: "c11", Password: cfg.Password, MaxPrivilegeLevel: ipmi.PrivilegeLevelAdministrator}, CipherSuites: []ipmi.CipherSuite{ipmi.CipherSuite3}})
		if err != nil {
			return "C11/long/harness", err.Error()
		}
		conn = s
	}
	cmds := []func() ipmi.Command{
		func() ipmi.Command { return &ipmi.GetSystemGUIDCmd{} },
		func() ipmi.Command {
			return &ipmi.GetChannelAuthenticationCapabilitiesCmd{Req: ipmi.GetChannelAuthenticationCapabilitiesReq{Channel: ipmi.ChannelPresentInterface, MaxPrivilegeLevel: ipmi.PrivilegeLevelAdministrator, ExtendedData: true}}
		},
		func() ipmi.Command { return &ipmi.GetDeviceIDCmd{} },
		func() ipmi.Command { return &ipmi.GetChassisStatusCmd{} },
	}
	which := func(i int) int {
		if i == c.Hold {
			return 0
		}
		return 1 + i%3
	}
	solo := map[int]string{}
	op, sends := -1, 0
	var stash []byte
	w.T.Menu = func(t *env.Transport, req []byte) []env.Answer {
		sends++
		cur := op
		return []env.Answer{{Name: "long", Apply: func(t *env.Transport, rx *ref.Rx) {
			b := t.BMC.Honest(rx)
			if cur == c.Hold+c.Gap && stash != nil {
				t.Enqueue(stash, "stray:duplicate-from-long-ago")
				stash = nil
			}
			if b != nil {
				t.Enqueue(b, "honest")
				if cur == c.Hold && stash == nil && sends > 0 {
					stash = append([]byte{}, b...)
				}
			}
		}}}
	}
	n := c.Hold + c.Gap + 3
	for i := 0; i < n; i++ {
		op = i
		w.T.BeginOp()
		cmd := cmds[which(i)]()
		var code ipmi.CompletionCode
		var err error
		if p := guard(func() { code, err = conn.SendCommand(w.Ctx, cmd) }); p != "" {
			return "C11/long/panic", p
		}
		got := fmt.Sprintf("%#02x %v %s", byte(code), err, canonNamed(reflect.ValueOf(cmd.Response())))
		want, ok := solo[which(i)]
		if !ok {
			// the same command's result at the first undisturbed use
			solo[which(i)] = got
			continue
		}
		if err == nil && got != want {
			return "C11/long/result-from-another-commands-reply", fmt.Sprintf("command %d (%s) on a connection where the reply to command %d (%s) was duplicated and the copy arrived %d commands later: result %s, the BMC's answer is %s", i, cmd.Name(), c.Hold, cmds[0]().Name(), c.Gap, got, want)
		}
		if len(w.T.Log) > 4000 {
			return "C11/long/runaway", "more than 4000 transmissions"
		}
	}
	return "", ""
}

func c11Judge(cfg histCfg, o *histObs) []finding {
	var out []finding
	add := func(key, f string, a ...any) { out = append(out, finding{"C11/" + key, fmt.Sprintf(f, a...)}) }
	mode := "sessionless"
	if cfg.InSession {
		mode = "insession"
	}
	if o.HandshakeErr != "" {
		add("handshake", "handshake failed: %s", o.HandshakeErr)
		return out
	}
	base := c04Baseline(cfg)
	for pos, oi := range cfg.Ops {
		op := histOps[oi]
		r := o.Results[pos]
		if r.Panic != "" {
			add(mode+"/panic/"+siteKey(r.Panic), "%s panicked: %s", op.Name, r.Panic)
			continue
		}
		if !r.ErrNil || op.Close {
			continue
		}
		ownRefused := false
		for _, a := range r.Answers {
			if strings.HasPrefix(a, "refused-") {
				ownRefused = true // this command itself was refused: its result is that refusal
			}
		}
		if ownRefused {
			continue
		}
		v := base.Results[pos]
		if r.Code != v.Code || r.Rsp != v.Rsp {
			var hist []string
			for p := 0; p <= pos; p++ {
				hist = append(hist, fmt.Sprintf("%s%v", histOps[cfg.Ops[p]].Name, o.Results[p].Answers))
			}
			add(mode+"/result-from-another-commands-reply/"+c11Cause(o, pos), "history %v: %s returned code %#02x %s, but the BMC's answer to it is code %#02x %s", hist, op.Name, r.Code, r.Rsp, v.Code, v.Rsp)
		}
	}
	return out
}

// c11Cause names the first non-default answer of the history up to pos.
func c11Cause(o *histObs, pos int) string {
	for p := 0; p <= pos; p++ {
		for _, a := range o.Results[p].Answers {
			if a != "ok" && a != "ok(horizon)" {
				return a
			}
		}
	}
	return "none"
}

// c11NoneCase: a call made with a context that is already over (cancelled, or
// its deadline in the past), after Warm undisturbed commands. Whatever the
// library does with such a context, a nil error must stand for a response the
// BMC sent to that very command.
type c11NoneCase struct {
	InSession bool   `json:"in_session"`
	Call      string `json:"call"`
	Cancelled bool   `json:"cancelled"` // else: deadline in the past
	Warm      int    `json:"warm"`
}

var c11NoneCalls = []string{"GetDeviceID", "GetSystemGUID", "GetChassisStatus", "ChassisControl", "SetSessionPrivilegeLevel", "Close"}

func c11None(c c11NoneCase) (string, string) {
	cfg := histConfig(ref.Suite{Auth: 1, Integ: 1, Conf: 1})
	w := newWorld(cfg, nil, nil)
	var conn bmc.Connection = w.Conn
	var sess *bmc.V2Session
	if c.InSession {
		s, err := w.Conn.NewV2Session(w.Ctx, &bmc.V2SessionOpts{SessionOpts: bmc.SessionOpts{Username: "c11", Password: cfg.Password, MaxPrivilegeLevel: ipmi.PrivilegeLevelAdministrator}, CipherSuites: []ipmi.CipherSuite{ipmi.CipherSuite3}})
		if err != nil {
			return "C11/none/harness", err.Error()
		}
		conn, sess = s, s
	}
	for i := 0; i < c.Warm; i++ {
		conn.SendCommand(w.Ctx, &ipmi.GetDeviceIDCmd{})
	}
	var ctx context.Context
	var cancel context.CancelFunc
	if c.Cancelled {
		ctx, cancel = context.WithCancel(w.Ctx)
		cancel()
	} else {
		ctx, cancel = context.WithDeadline(w.Ctx, time.Now().Add(-time.Second))
		defer cancel()
	}
	before := len(w.T.Log)
	var err error
	var code ipmi.CompletionCode
	p := guard(func() {
		switch c.Call {
		case "Close":
			if sess != nil {
				err = sess.Close(ctx)
			} else {
				err = w.Conn.Close()
			}
		case "ChassisControl":
			code, err = conn.SendCommand(ctx, &ipmi.ChassisControlCmd{Req: ipmi.ChassisControlReq{ChassisControl: ipmi.ChassisControlPowerCycle}})
		case "SetSessionPrivilegeLevel":
			code, err = conn.SendCommand(ctx, &ipmi.SetSessionPrivilegeLevelCmd{Req: ipmi.SetSessionPrivilegeLevelReq{PrivilegeLevel: ipmi.PrivilegeLevelUser}})
		case "GetSystemGUID":
			code, err = conn.SendCommand(ctx, &ipmi.GetSystemGUIDCmd{})
		case "GetChassisStatus":
			code, err = conn.SendCommand(ctx, &ipmi.GetChassisStatusCmd{})
		default:
			code, err = conn.SendCommand(ctx, &ipmi.GetDeviceIDCmd{})
		}
	})
	if p != "" {
		return "C11/none/panic/" + siteKey(p), fmt.Sprintf("%+v: %s", c, p)
	}
	if c.Call == "Close" && sess == nil {
		return "", "" // closing the socket involves no response
	}
	if err != nil {
		return "", ""
	}
	delivered := 0
	for _, ex := range w.T.Log[before:] {
		if ex.Rx != nil && ex.Returned != nil {
			delivered++
		}
	}
	if delivered == 0 {
		return "C11/none/result-without-any-response/" + c.Call, fmt.Sprintf("%+v: the call returned (%#02x, nil) although %d datagrams were transmitted and no response was delivered to the library", c, byte(code), len(w.T.Log)-before)
	}
	return "", ""
}

func runC11(r *rep.R) {
	r.SetRule("a case is one execution of a history [A, B, C] of pairwise distinct commands (all ordered pairs A,B over an 8-command alphabet, C fixed per pair) outside and inside a session, with <= k socket events from {reply delayed past the timeout, reply duplicated, reply held until after the next reply (reordering), a stray valid reply of another command ahead of the real one, reply lost}; oracle: every nil-error result equals the BMC's answer to that command (taken from an undisturbed run of the same history)")
	alphabet := []int{opGetDeviceID, opChassisStatus, opGetSDR, opSetPriv, opPowerReading, opSensorReading, opSystemGUID, opAuthCaps, opDCMISensorInfoCmd, opDCMICapsCmd, opChassisControl, opPICMG}
	var idx int64
	k := 2
	for _, inSess := range []bool{false, true} {
		for _, a := range alphabet {
			for bi, b := range alphabet {
				if a == b {
					continue
				}
				c := alphabet[(bi+3)%len(alphabet)]
				if c == a || c == b {
					c = alphabet[(bi+5)%len(alphabet)]
				}
				if c == a || c == b {
					c = alphabet[(bi+6)%len(alphabet)]
				}
				ops := []int{a, b, c}
				if inSess {
					ops = append(ops, opClose)
				}
				cfg := histCfg{Suite: ref.Suite{Auth: 1, Integ: 1, Conf: 1}, InSession: inSess, Ops: ops, Horizon: 2, Alphabet: "queue"}
				kk := k
				if !thorough(r) && inSess {
					kk = 1
				}
				histExploreWith(r, "C11", cfg, kk, &idx, c11Judge)
			}
		}
	}
	// three events within one or two commands (busy reply, stray reply, context expiry in any order)
	small := []int{opAuthCaps, opSystemGUID, opGetDeviceID, opPowerReading}
	for _, inSess := range []bool{false, true} {
		for _, a := range small {
			for _, b := range small {
				if a == b {
					continue
				}
				ops := []int{a, b}
				if inSess {
					ops = append(ops, opClose)
				}
				cfg := histCfg{Suite: ref.Suite{Auth: 1, Integ: 1, Conf: 1}, InSession: inSess, Ops: ops, Horizon: 3, Alphabet: "queue"}
				kk := 3
				if !thorough(r) && inSess {
					kk = 2
				}
				histExploreWith(r, "C11", cfg, kk, &idx, c11Judge)
			}
		}
	}
	// the same socket events over the library's real transport and a loopback
	// socket (delayed replies really arrive after the read deadline, duplicates
	// really sit in the kernel's buffer), compared with the in-memory model
	pairs := [][2]int{{opGetDeviceID, opSystemGUID}, {opSystemGUID, opAuthCaps}, {opPowerReading, opDCMICapsCmd}, {opChassisStatus, opGetDeviceID}}
	if thorough(r) {
		pairs = append(pairs, [2]int{opAuthCaps, opGetDeviceID}, [2]int{opDCMISensorInfoCmd, opPowerReading}, [2]int{opSensorReading, opChassisControl}, [2]int{opGetSDR, opSetPriv})
	}
	for _, inSess := range []bool{false, true} {
		for _, p := range pairs {
			ops := []int{p[0], p[1]}
			if inSess {
				ops = append(ops, opClose)
			}
			histConform(r, "C11", histCfg{Suite: ref.Suite{Auth: 1, Integ: 1, Conf: 1}, InSession: inSess, Ops: ops, Horizon: 2, Alphabet: "queue"}, 2, &idx)
		}
	}
	// long-lived connections: a copy of an old reply arrives 1..130 commands later
	for _, inSess := range []bool{false, true} {
		for _, hold := range []int{0, 1, 5} {
			for gap := 1; gap <= 130; gap++ {
				if !thorough(r) && gap > 3 && gap < 62 || !thorough(r) && gap > 66 && gap < 126 {
					continue
				}
				idx++
				if !r.Mine(idx) {
					continue
				}
				c := c11LongCase{InSession: inSess, Hold: hold, Gap: gap}
				k, msg := c11Long(c)
				r.Eval(rep.H("long", fmt.Sprint(c)), true)
				r.Trace()
				if k != "" {
					r.Outcome("violation")
					r.Violate(k, msg, "c11long", c, nil)
				} else {
					r.Outcome("long:results-from-own-replies")
				}
			}
		}
	}
	for _, inSess := range []bool{false, true} {
		for _, call := range c11NoneCalls {
			for _, cancelled := range []bool{false, true} {
				for _, warm := range []int{0, 1, 3} {
					idx++
					if !r.Mine(idx) {
						continue
					}
					c := c11NoneCase{InSession: inSess, Call: call, Cancelled: cancelled, Warm: warm}
					k, msg := c11None(c)
					r.Eval(rep.H("none", fmt.Sprint(c)), true)
					r.Trace()
					if k != "" {
						r.Outcome("violation")
						r.Violate(k, msg, "c11none", c, nil)
					} else {
						r.Outcome("context-already-over:no-result-without-a-response")
					}
				}
			}
		}
	}
	r.Bound("deviations", k)
	r.Bound("pairs", len(alphabet)*(len(alphabet)-1))
	r.Assume("the socket is FIFO: one read per attempt returns the oldest unread datagram, as a real UDP socket does")
}
