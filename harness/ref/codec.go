package ref

import (
	"encoding/binary"
	"fmt"
	"time"
)

// Reference decoders for response bodies, written from the specification
// tables (IPMI v2.0 sections 20.1, 22.13, 22.17-22.20, 28.2, 33.9-33.12, 35.14,
// 43.1, 43.15; DCMI 1.5 table 6-3, 6.5.2, 6.6.1). Each returns a map from the
// library's exported field name to the expected value (formatted with %v by
// the caller), and whether any reserved bit was set in the input (then the
// input is not "the specification's encoding" of anything and is not judged).

type Fields map[string]any

func bit(b byte, n uint) bool { return b&(1<<n) != 0 }

func bcdByte(b byte) (uint8, bool) {
	hi, lo := b>>4, b&0xf
	return hi*10 + lo, hi <= 9 && lo <= 9
}

// DeviceID: 20.1.
func DeviceID(d []byte) (Fields, bool, error) {
	if len(d) < 11 {
		return nil, false, fmt.Errorf("short")
	}
	minor, okBCD := bcdByte(d[3])
	f := Fields{
		"ID": d[0], "ProvidesSDRs": bit(d[1], 7), "Revision": d[1] & 0x0f,
		"Available": !bit(d[2], 7), "MajorFirmwareRevision": d[2] & 0x7f, "MinorFirmwareRevision": minor,
		"MajorIPMIVersion": d[4] & 0x0f, "MinorIPMIVersion": d[4] >> 4,
		"SupportsChassisDevice": bit(d[5], 7), "SupportsBridgeDevice": bit(d[5], 6), "SupportsIPMBEventGeneratorDevice": bit(d[5], 5),
		"SupportsIPMBEventReceiverDevice": bit(d[5], 4), "SupportsFRUInventoryDevice": bit(d[5], 3), "SupportsSELDevice": bit(d[5], 2),
		"SupportsSDRRepositoryDevice": bit(d[5], 1), "SupportsSensorDevice": bit(d[5], 0),
		"Manufacturer": uint32(d[6]) | uint32(d[7])<<8 | uint32(d[8]&0x0f)<<16,
		"Product":      binary.LittleEndian.Uint16(d[9:11]),
	}
	var aux [4]byte
	if len(d) >= 15 {
		copy(aux[:], d[11:15])
	}
	f["AuxiliaryFirmwareRevision"] = aux
	reserved := d[1]&0x70 != 0 || d[8]&0xf0 != 0 || !okBCD
	// an auxiliary revision is 4 bytes or absent; other tail lengths are not an encoding of a value
	if len(d) > 11 && len(d) < 15 {
		reserved = true
	}
	return f, reserved, nil
}

// ChassisStatus: 28.2.
func ChassisStatus(d []byte) (Fields, bool, error) {
	if len(d) < 3 {
		return nil, false, fmt.Errorf("short")
	}
	ident := uint8(0xff)
	if bit(d[2], 6) {
		ident = d[2] >> 4 & 3
	}
	f := Fields{
		"PowerRestorePolicy": d[0] >> 5 & 3, "PowerControlFault": bit(d[0], 4), "PowerFault": bit(d[0], 3), "Interlock": bit(d[0], 2), "PowerOverload": bit(d[0], 1), "PoweredOn": bit(d[0], 0),
		"PoweredOnByIPMI": bit(d[1], 4), "LastPowerDownFault": bit(d[1], 3), "LastPowerDownInterlock": bit(d[1], 2), "LastPowerDownOverload": bit(d[1], 1), "LastPowerDownSupplyFailure": bit(d[1], 0),
		"ChassisIdentifyState": ident, "CoolingFault": bit(d[2], 3), "DriveFault": bit(d[2], 2), "Lockout": bit(d[2], 1), "Intrusion": bit(d[2], 0),
	}
	var fp byte
	if len(d) > 3 {
		fp = d[3]
	}
	for i, n := range []string{"PowerOffButtonDisabled", "ResetButtonDisabled", "DiagnosticInterruptButtonDisabled", "StandbyButtonDisabled", "PowerOffButtonDisableAllowed", "ResetButtonDisableAllowed", "DiagnosticInterruptButtonDisableAllowed", "StandbyButtonDisableAllowed"} {
		f[n] = bit(fp, uint(i))
	}
	reserved := bit(d[0], 7) || d[1]&0xe0 != 0 || bit(d[2], 7) || (!bit(d[2], 6) && d[2]&0x30 != 0)
	return f, reserved, nil
}

// AuthCaps: 22.13 (flag polarity as pinned by the repository's vectors: the
// fields mirror the wire bits).
func AuthCaps(d []byte) (Fields, bool, error) {
	if len(d) < 8 {
		return nil, false, fmt.Errorf("short")
	}
	f := Fields{
		"Channel": d[0], "ExtendedCapabilities": bit(d[1], 7),
		"AuthenticationTypeOEM": bit(d[1], 5), "AuthenticationTypePassword": bit(d[1], 4), "AuthenticationTypeMD5": bit(d[1], 2), "AuthenticationTypeMD2": bit(d[1], 1), "AuthenticationTypeNone": bit(d[1], 0),
		"TwoKeyLogin": bit(d[2], 5), "PerMessageAuthentication": bit(d[2], 4), "UserLevelAuthentication": bit(d[2], 3),
		"NonNullUsernamesEnabled": bit(d[2], 2), "NullUsernamesEnabled": bit(d[2], 1), "AnonymousLoginEnabled": bit(d[2], 0),
		"SupportsV2": bit(d[3], 1), "SupportsV1": bit(d[3], 0),
		"OEM": uint32(d[4]) | uint32(d[5])<<8 | uint32(d[6])<<16, "OEMData": d[7],
	}
	reserved := d[0]&0xf0 != 0 || d[1]&0x48 != 0 || d[2]&0xc0 != 0 || d[3]&0xfc != 0
	return f, reserved, nil
}

// SessionInfo: 22.20.
func SessionInfo(d []byte) (Fields, bool, error) {
	if len(d) < 3 {
		return nil, false, fmt.Errorf("short")
	}
	f := Fields{"Handle": d[0], "Max": d[1] & 0x3f, "Active": d[2] & 0x3f}
	reserved := d[1]&0xc0 != 0 || d[2]&0xc0 != 0
	zero := func() {
		f["UserID"], f["PrivilegeLevel"], f["IsIPMIv2"], f["Channel"], f["Port"] = uint8(0), uint8(0), false, uint8(0), uint16(0)
		f["IP"], f["MAC"] = "<nil>", ""
	}
	if len(d) == 3 {
		zero()
		if d[0] != 0 {
			return f, reserved, fmt.Errorf("active session without session data")
		}
		return f, reserved, nil
	}
	if len(d) < 6 {
		return nil, false, fmt.Errorf("short")
	}
	zero()
	f["UserID"], f["PrivilegeLevel"], f["IsIPMIv2"], f["Channel"] = d[3]&0x3f, d[4]&0x0f, d[5]>>4 == 1, d[5]&0x0f
	reserved = reserved || d[3]&0xc0 != 0 || d[4]&0xf0 != 0 || d[5]>>4 > 1
	if len(d) >= 18 {
		f["IP"] = fmt.Sprintf("%d.%d.%d.%d", d[6], d[7], d[8], d[9])
		f["MAC"] = fmt.Sprintf("%02x:%02x:%02x:%02x:%02x:%02x", d[10], d[11], d[12], d[13], d[14], d[15])
		f["Port"] = binary.LittleEndian.Uint16(d[16:18])
	} else if len(d) != 6 {
		reserved = true // neither the 6-byte nor the LAN form
	}
	return f, reserved, nil
}

// SDRRepositoryInfo: 33.9.
func SDRRepositoryInfo(d []byte) (Fields, bool, error) {
	if len(d) < 14 {
		return nil, false, fmt.Errorf("short")
	}
	okBCD := d[0]>>4 <= 9 && d[0]&0xf <= 9
	f := Fields{
		"Version": (d[0]&0xf)*10 + d[0]>>4, "Records": binary.LittleEndian.Uint16(d[1:3]), "FreeSpace": binary.LittleEndian.Uint16(d[3:5]),
		"LastAddition": time.Unix(int64(binary.LittleEndian.Uint32(d[5:9])), 0), "LastErase": time.Unix(int64(binary.LittleEndian.Uint32(d[9:13])), 0),
		"Overflow": bit(d[13], 7), "SupportsModalUpdate": bit(d[13], 6), "SupportsNonModalUpdate": bit(d[13], 5), "SupportsDelete": bit(d[13], 3),
		"SupportsPartialAdd": bit(d[13], 2), "SupportsReserve": bit(d[13], 1), "SupportsGetAllocationInformation": bit(d[13], 0),
	}
	return f, bit(d[13], 4) || !okBCD, nil
}

// SensorReading: 35.14.
func SensorReading(d []byte) (Fields, bool, error) {
	if len(d) < 3 {
		// byte 3 (states) is required for all but non-threshold sensors with no states; the library's minimum is 3
		return nil, false, fmt.Errorf("short")
	}
	f := Fields{"Reading": d[0], "EventMessagesEnabled": bit(d[1], 7), "ScanningEnabled": bit(d[1], 6), "ReadingUnavailable": bit(d[1], 5)}
	return f, d[1]&0x1f != 0, nil
}

// SDRHeader: 43 (record header).
func SDRHeader(d []byte) (Fields, bool, error) {
	if len(d) < 5 {
		return nil, false, fmt.Errorf("short")
	}
	okBCD := d[2]>>4 <= 9 && d[2]&0xf <= 9
	return Fields{"ID": binary.LittleEndian.Uint16(d[0:2]), "Version": (d[2]&0xf)*10 + d[2]>>4, "Type": d[3], "Length": d[4]}, !okBCD, nil
}

func twos(v uint16, bits uint) int16 {
	if v&(1<<(bits-1)) != 0 {
		return int16(v) - int16(1<<bits)
	}
	return int16(v)
}

var bcdPlus = []rune("0123456789 -.:,_")

// IDString decodes a type/length byte and the following bytes (43.15).
// Returns the string, the number of bytes consumed, and whether the encoding
// is one the specification defines.
func IDString(tl byte, rest []byte) (s string, consumed int, defined bool, err error) {
	typ, n := tl>>6, int(tl&0x1f)
	switch typ {
	case 1: // BCD plus
		consumed = (n + 1) / 2
		if len(rest) < consumed {
			return "", 0, true, fmt.Errorf("short")
		}
		var r []rune
		for i := 0; i < n; i++ {
			nib := rest[i/2] >> 4
			if i%2 == 1 {
				nib = rest[i/2] & 0xf
			}
			r = append(r, bcdPlus[nib])
		}
		return string(r), consumed, true, nil
	case 2: // 6-bit packed ASCII
		consumed = (n*6 + 7) / 8
		if len(rest) < consumed {
			return "", 0, true, fmt.Errorf("short")
		}
		var r []rune
		for i := 0; i < n; i++ {
			var v byte
			for k := 0; k < 6; k++ {
				bitpos := i*6 + k
				if rest[bitpos/8]&(1<<(bitpos%8)) != 0 {
					v |= 1 << k
				}
			}
			r = append(r, rune(0x20+v))
		}
		return string(r), consumed, true, nil
	default: // 8-bit ASCII + Latin-1 (3) and "unicode" (0), which the library documents as read the same way
		if len(rest) < n {
			return "", 0, true, fmt.Errorf("short")
		}
		var r []rune
		for _, b := range rest[:n] {
			r = append(r, rune(b))
		}
		// a length of 1 is reserved for 8-bit ASCII; "unicode" bytes above 0x7f have no defined meaning
		// ("unicode" is read with the same decoder, so the same holds for it)
		defined = n != 1
		if typ == 0 {
			for _, b := range rest[:n] {
				if b > 0x7f {
					defined = false
				}
			}
		}
		return string(r), n, defined, nil
	}
}

// FullSensorRecord: 43.1 (body after the 5-byte header).
func FullSensorRecord(d []byte) (Fields, bool, error) {
	if len(d) < 43 {
		return nil, false, fmt.Errorf("short")
	}
	m := uint16(d[19]) | uint16(d[20]>>6)<<8
	b := uint16(d[21]) | uint16(d[22]>>6)<<8
	acc := uint16(d[22]&0x3f) | uint16(d[23]>>4)<<6
	id, _, defined, err := IDString(d[42], d[43:])
	if err != nil {
		return nil, false, err
	}
	f := Fields{
		"OwnerAddress": d[0], "Channel": d[1] >> 4, "OwnerLUN": d[1] & 3, "Number": d[2],
		"Entity": d[3], "IsContainerEntity": bit(d[4], 7), "Instance": d[4] & 0x7f,
		"Ignore": bit(d[6], 7), "SensorType": d[7], "OutputType": d[8],
		"AnalogDataFormat": d[15] >> 6, "RateUnit": d[15] >> 3 & 7, "IsPercentage": bit(d[15], 0),
		"BaseUnit": d[16], "ModifierUnit": d[17], "Linearisation": d[18] & 0x7f,
		"M": twos(m, 10), "Tolerance": d[20] & 0x3f, "B": twos(b, 10), "Accuracy": twos(acc, 10),
		"AccuracyExp": d[23] >> 2 & 3, "Direction": d[23] & 3, "RExp": int8(twos(uint16(d[24]>>4), 4)), "BExp": int8(twos(uint16(d[24]&0xf), 4)),
		"NominalReadingSpecified": bit(d[25], 0), "NormalMaxSpecified": bit(d[25], 1), "NormalMinSpecified": bit(d[25], 2),
		"NominalReading": d[26], "NormalMax": d[27], "NormalMin": d[28], "SensorMax": d[29], "SensorMin": d[30],
		"Identity": id,
	}
	reserved := d[1]&0x0c != 0 || bit(d[18], 7) || d[25]&0xf8 != 0 || bit(d[42], 5) || !defined
	return f, reserved, nil
}

// PowerReading: DCMI 6.6.1 (after the body code).
func PowerReading(d []byte) (Fields, bool, error) {
	if len(d) < 17 {
		return nil, false, fmt.Errorf("short")
	}
	return Fields{
		"Instantaneous": binary.LittleEndian.Uint16(d[0:2]), "Min": binary.LittleEndian.Uint16(d[2:4]), "Max": binary.LittleEndian.Uint16(d[4:6]), "Avg": binary.LittleEndian.Uint16(d[6:8]),
		"Timestamp": time.Unix(int64(binary.LittleEndian.Uint32(d[8:12])), 0), "Period": time.Duration(binary.LittleEndian.Uint32(d[12:16])) * time.Millisecond,
		"Active": bit(d[16], 6),
	}, d[16]&0xbf != 0, nil
}

// DCMISensorInfo: DCMI 6.5.2 (after the body code).
func DCMISensorInfo(d []byte) (Fields, bool, error) {
	if len(d) < 2 || len(d) < 2+2*int(d[1]) {
		return nil, false, fmt.Errorf("short")
	}
	ids := []uint16{}
	for i := 0; i < int(d[1]); i++ {
		ids = append(ids, binary.LittleEndian.Uint16(d[2+2*i:]))
	}
	return Fields{"Instances": d[0], "RecordIDs": ids}, false, nil
}

func ravg(b byte) time.Duration {
	u := [...]time.Duration{time.Second, time.Minute, time.Hour, 24 * time.Hour}[b>>6]
	return time.Duration(b&0x3f) * u
}

// DCMICaps decodes Get DCMI Capabilities Info parameter p (after the body
// code), following the readings the repository documents and pins with its
// vectors (DESIGN 5.1).
func DCMICaps(p int, d []byte) (Fields, bool, error) {
	if len(d) < 3 {
		return nil, false, fmt.Errorf("short")
	}
	f := Fields{"MajorVersion": d[0], "MinorVersion": d[1], "Revision": d[2]}
	v10 := d[0] == 1 && d[1] == 0
	b := d[3:]
	reserved := false
	switch p {
	case 1:
		if len(b) < 3 {
			return nil, false, fmt.Errorf("short")
		}
		if v10 {
			f["TemperatureMonitor"], f["ChassisPower"], f["SELLogging"], f["Identification"] = bit(b[0], 3), bit(b[0], 2), bit(b[0], 1), bit(b[0], 0)
			f["VLANCapable"], f["SOLSupported"], f["OOBPrimaryLANChannelAvailable"] = bit(b[2], 5), bit(b[2], 4), bit(b[2], 3)
			f["IBKCSChannelAvailable"], f["IBSystemInterfaceChannelAvailable"] = bit(b[2], 0), false
			reserved = b[0]&0xf0 != 0 || b[2]&0xc0 != 0
		} else {
			for _, n := range []string{"TemperatureMonitor", "ChassisPower", "SELLogging", "Identification", "VLANCapable", "SOLSupported", "OOBPrimaryLANChannelAvailable", "IBKCSChannelAvailable"} {
				f[n] = true
			}
			f["IBSystemInterfaceChannelAvailable"] = bit(b[2], 0)
			reserved = b[0] != 0 || b[2]&0xf8 != 0
		}
		f["PowerManagement"] = bit(b[1], 0)
		f["OOBSecondaryLANChannelAvailable"], f["SerialTMODEAvailable"] = bit(b[2], 2), bit(b[2], 1)
		reserved = reserved || b[1]&0xfe != 0
	case 2:
		if len(b) < 4 {
			return nil, false, fmt.Errorf("short")
		}
		v10 = v10 || len(b) == 4
		f["SELAutoRollover"] = bit(b[0], 7)
		f["SELFlushOnRollover"], f["SELRecordLevelFlushOnRollover"] = !v10 && bit(b[0], 6), !v10 && bit(b[0], 5)
		f["SELMaxEntries"] = uint16(b[0]&0xf) | uint16(b[1])<<8
		if v10 {
			f["AssetTagSupport"], f["DHCPHostNameSupport"], f["GUIDSupport"] = bit(b[2], 2), bit(b[2], 1), bit(b[2], 0)
			f["BaseboardTemperature"], f["ProcessorsTemperature"], f["InletTemperature"] = bit(b[3], 2), bit(b[3], 1), bit(b[3], 0)
			f["TemperatureSamplingFrequency"] = time.Duration(0)
		} else {
			for _, n := range []string{"AssetTagSupport", "DHCPHostNameSupport", "GUIDSupport", "BaseboardTemperature", "ProcessorsTemperature", "InletTemperature"} {
				f[n] = true
			}
			f["TemperatureSamplingFrequency"] = time.Duration(b[4]) * time.Second
		}
		// the SEL attribute byte order is the reading the repository documents and pins
	case 3:
		if len(b) < 2 {
			return nil, false, fmt.Errorf("short")
		}
		f["PowerManagementSlaveAddress"], f["PowerManagementChannel"], f["PowerManagementRevision"] = b[0]>>1, b[1]>>4, b[1]&0xf
		reserved = bit(b[0], 0)
	case 4:
		if len(b) < 3 {
			return nil, false, fmt.Errorf("short")
		}
		f["PrimaryLANOOBChannel"], f["SecondaryLANOOBChannel"], f["SerialOOBChannel"] = b[0], b[1], b[2]
	case 5:
		if len(b) < 1 || len(b) < 1+int(b[0]) {
			return nil, false, fmt.Errorf("short")
		}
		ps := []time.Duration{}
		for i := 0; i < int(b[0]); i++ {
			ps = append(ps, ravg(b[1+i]))
		}
		f["PowerRollingAvgTimePeriods"] = ps
	}
	return f, reserved, nil
}

// LANMessage: 13.8 IPMI LAN message (request and response forms), with the
// defining body code of group-extension network functions (2Ch/2Dh) and the
// IANA enterprise number of OEM/group ones (2Eh/2Fh). Neither extension exists
// for other network functions, so both read as zero there.
func LANMessage(d []byte) (Fields, bool, error) {
	m, err := ParseMsg(d)
	if err != nil {
		return nil, false, err
	}
	f := Fields{"RemoteAddress": m.Addr1, "Function": m.NetFn, "RemoteLUN": m.LUN1, "Checksum1": m.Ck1,
		"LocalAddress": m.Addr2, "Sequence": m.Seq, "LocalLUN": m.LUN2, "Command": m.Cmd, "Checksum2": m.Ck2,
		"Body": byte(0), "Enterprise": uint32(0), "CompletionCode": byte(0)}
	data := m.Data
	if m.NetFn&1 == 1 {
		if len(data) < 1 {
			return nil, false, fmt.Errorf("response without completion code")
		}
		f["CompletionCode"] = data[0]
		data = data[1:]
	}
	switch m.NetFn &^ 1 {
	case 0x2c:
		if len(data) < 1 {
			return nil, false, fmt.Errorf("group extension without body code")
		}
		f["Body"] = data[0]
	case 0x2e:
		if len(data) < 3 {
			return nil, false, fmt.Errorf("OEM/group without enterprise number")
		}
		f["Enterprise"] = uint32(data[0]) | uint32(data[1])<<8 | uint32(data[2])<<16
	}
	return f, false, nil
}
