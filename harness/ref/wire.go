// Package ref is an independent reference implementation of the IPMI v2.0 /
// RMCP+ wire formats, the RAKP key exchange and a small BMC. It deliberately
// imports nothing from github.com/gebn/bmc: it is the oracle the library is
// compared against. Layouts follow IPMI v2.0 section 13 (RMCP+ session header
// 13.6, IPMI LAN message 13.8, RAKP 13.20-13.24, integrity 13.28, AES-CBC
// 13.29, key derivation 13.31-13.32) and DCMI 1.5 section 6.
package ref

import (
	"encoding/binary"
	"errors"
	"fmt"
)

// Payload types (13.27.3).
const (
	PTIPMI     = 0x00
	PTOEM      = 0x02
	PTOpenReq  = 0x10
	PTOpenRsp  = 0x11
	PTRAKP1    = 0x12
	PTRAKP2    = 0x13
	PTRAKP3    = 0x14
	PTRAKP4    = 0x15
	RMCPHdrLen = 4
)

var RMCPHeader = []byte{0x06, 0x00, 0xFF, 0x07}

// Packet is a parsed RMCP + v2.0 session wrapper.
type Packet struct {
	RMCP      []byte
	AuthType  byte
	Encrypted bool
	Authed    bool
	PType     byte
	OEMIANA   uint32
	OEMID     uint16
	SID       uint32
	Seq       uint32
	Len       uint16
	Payload   []byte
	// trailer, only when Authed
	Pad       []byte
	PadLen    byte
	NextHdr   byte
	AuthCode  []byte
	AuthRange []byte // auth type .. next header inclusive
	Trailing  []byte // bytes after the payload of an unauthenticated packet
}

// ParsePacket parses a datagram. authLen is the AuthCode length to expect when
// the authenticated flag is set (from the negotiated integrity algorithm).
func ParsePacket(d []byte, authLen int) (*Packet, error) {
	if len(d) < RMCPHdrLen+12 {
		return nil, fmt.Errorf("datagram of %d bytes is shorter than RMCP + session header", len(d))
	}
	p := &Packet{RMCP: d[:4]}
	if d[0] != 0x06 || d[1] != 0x00 || d[2] != 0xFF || d[3] != 0x07 {
		return nil, fmt.Errorf("RMCP header % x, want 06 00 ff 07 (version 6, reserved 0, no-ACK sequence, class IPMI without ACK bit)", d[:4])
	}
	s := d[4:]
	p.AuthType = s[0]
	if p.AuthType != 0x06 {
		return nil, fmt.Errorf("auth type %#02x, want 06 (RMCP+)", s[0])
	}
	p.Encrypted = s[1]&0x80 != 0
	p.Authed = s[1]&0x40 != 0
	p.PType = s[1] & 0x3f
	off := 2
	if p.PType == PTOEM {
		if len(s) < 18 {
			return nil, errors.New("too short for OEM explicit fields")
		}
		p.OEMIANA = binary.LittleEndian.Uint32(s[2:6])
		p.OEMID = binary.LittleEndian.Uint16(s[6:8])
		off = 8
	}
	p.SID = binary.LittleEndian.Uint32(s[off:])
	p.Seq = binary.LittleEndian.Uint32(s[off+4:])
	p.Len = binary.LittleEndian.Uint16(s[off+8:])
	off += 10
	if len(s) < off+int(p.Len) {
		return nil, fmt.Errorf("payload length field %d exceeds the %d bytes present", p.Len, len(s)-off)
	}
	p.Payload = s[off : off+int(p.Len)]
	rest := s[off+int(p.Len):]
	if !p.Authed {
		p.Trailing = rest
		return p, nil
	}
	if len(rest) < 2+authLen {
		return nil, fmt.Errorf("authenticated packet has a %d-byte trailer, need at least %d", len(rest), 2+authLen)
	}
	p.AuthCode = rest[len(rest)-authLen:]
	p.NextHdr = rest[len(rest)-authLen-1]
	p.PadLen = rest[len(rest)-authLen-2]
	p.Pad = rest[:len(rest)-authLen-2]
	p.AuthRange = s[:len(s)-authLen]
	return p, nil
}

// CheckTrailer verifies the integrity pad rules of 13.6/13.28.4.
func (p *Packet) CheckTrailer() error {
	if !p.Authed {
		return nil
	}
	if int(p.PadLen) != len(p.Pad) {
		return fmt.Errorf("pad length byte %d but %d pad bytes present", p.PadLen, len(p.Pad))
	}
	if len(p.Pad) > 3 {
		return fmt.Errorf("%d integrity pad bytes, at most 3 are ever needed", len(p.Pad))
	}
	for _, b := range p.Pad {
		if b != 0xFF {
			return fmt.Errorf("integrity pad byte %#02x, want ff", b)
		}
	}
	if p.NextHdr != 0x07 {
		return fmt.Errorf("next header %#02x, want 07", p.NextHdr)
	}
	if len(p.AuthRange)%4 != 0 {
		return fmt.Errorf("AuthCode range is %d bytes, not a multiple of 4", len(p.AuthRange))
	}
	return nil
}

// BuildPacket serialises a wrapper around payload. If integ is non-nil the
// packet is authenticated with it.
func BuildPacket(ptype byte, enc bool, sid, seq uint32, payload []byte, integ func([]byte) []byte) []byte {
	b := append([]byte{}, RMCPHeader...)
	flags := ptype & 0x3f
	if enc {
		flags |= 0x80
	}
	if integ != nil {
		flags |= 0x40
	}
	b = append(b, 0x06, flags)
	b = binary.LittleEndian.AppendUint32(b, sid)
	b = binary.LittleEndian.AppendUint32(b, seq)
	b = binary.LittleEndian.AppendUint16(b, uint16(len(payload)))
	b = append(b, payload...)
	if integ != nil {
		n := len(b) - 4 + 2
		pad := (4 - n%4) % 4
		for i := 0; i < pad; i++ {
			b = append(b, 0xFF)
		}
		b = append(b, byte(pad), 0x07)
		b = append(b, integ(b[4:])...)
	}
	return b
}

// Msg is an IPMI LAN message (13.8). For a request Addr1 is the responder
// (rsAddr) and Addr2 the requester; for a response the other way round.
type Msg struct {
	Addr1 byte
	NetFn byte
	LUN1  byte
	Ck1   byte
	Addr2 byte
	Seq   byte
	LUN2  byte
	Cmd   byte
	Data  []byte // request: request data (incl. group body code); response: completion code + data
	Ck2   byte
}

func Checksum(b []byte) byte {
	s := 0
	for _, x := range b {
		s += int(x)
	}
	return byte(-s)
}

// ParseMsg parses and checksum-verifies a message.
func ParseMsg(b []byte) (*Msg, error) {
	if len(b) < 7 {
		return nil, fmt.Errorf("IPMI message of %d bytes, minimum is 7", len(b))
	}
	m := &Msg{Addr1: b[0], NetFn: b[1] >> 2, LUN1: b[1] & 3, Ck1: b[2], Addr2: b[3], Seq: b[4] >> 2, LUN2: b[4] & 3, Cmd: b[5],
		Data: b[6 : len(b)-1], Ck2: b[len(b)-1]}
	if c := Checksum(b[:2]); c != m.Ck1 {
		return nil, fmt.Errorf("checksum1 %#02x, want %#02x", m.Ck1, c)
	}
	if c := Checksum(b[3 : len(b)-1]); c != m.Ck2 {
		return nil, fmt.Errorf("checksum2 %#02x, want %#02x", m.Ck2, c)
	}
	return m, nil
}

// BuildMsg serialises a message with correct checksums.
func BuildMsg(addr1, netfn, lun1, addr2, seq, lun2, cmd byte, data []byte) []byte {
	b := []byte{addr1, netfn<<2 | lun1&3, 0, addr2, seq<<2 | lun2&3, cmd}
	b[2] = Checksum(b[:2])
	b = append(b, data...)
	b = append(b, Checksum(b[3:]))
	return b
}

// ResponseTo builds the response message to req with completion code cc and
// data (for group-extension NetFn the caller includes the body code in data).
func ResponseTo(req *Msg, cc byte, data []byte) []byte {
	d := append([]byte{cc}, data...)
	return BuildMsg(req.Addr2, req.NetFn|1, req.LUN2, req.Addr1, req.Seq, req.LUN1, req.Cmd, d)
}
