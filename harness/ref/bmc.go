package ref

import (
	"bytes"
	"crypto/hmac"
	"crypto/sha256"
	"encoding/binary"
	"fmt"
)

// CSRecord is one cipher-suite record as served by Get Channel Cipher Suites.
type CSRecord struct {
	ID     byte
	OEM    bool
	IANA   uint32
	Auth   byte
	Integs []byte
	Confs  []byte
}

func (c CSRecord) Encode() []byte {
	var b []byte
	if c.OEM {
		b = append(b, 0xC1, c.ID, byte(c.IANA), byte(c.IANA>>8), byte(c.IANA>>16))
	} else {
		b = append(b, 0xC0, c.ID)
	}
	b = append(b, c.Auth&0x3f)
	for _, i := range c.Integs {
		b = append(b, 0x40|i&0x3f)
	}
	for _, x := range c.Confs {
		b = append(b, 0x80|x&0x3f)
	}
	return b
}

// Config describes a BMC.
type Config struct {
	Password []byte
	KG       []byte // nil: one-key login (Kg = Kuid)
	GUID     [16]byte
	RC       [16]byte // managed system random used in RAKP2
	SIDC     uint32   // managed system session ID handed out
	// Username, when CheckUser is set, is the only user the BMC knows: RAKP
	// Message 1 for another name is answered with status 0Dh (unauthorized name).
	Username  []byte
	CheckUser bool
	// AnnounceLen, if non-zero for payload k, replaces the payload-length byte (8)
	// of algorithm payload k in the Open Session Response.
	AnnounceLen [3]byte
	// OpenRspPriv, if set, is the maximum privilege level placed in the Open
	// Session Response instead of echoing the requested one.
	OpenRspPriv *byte
	// OpenRspPrivRaw: the byte is sent as it is (reserved upper bits included)
	OpenRspPrivRaw bool
	// FollowUnknownAlgs: the BMC completes RAKP for integrity / confidentiality
	// algorithm numbers the reference does not implement (it announced them, so
	// it knows them); packets of such a session are opaque.
	FollowUnknownAlgs bool
	// DistinctSIDs: each Open Session Request gets SIDC, SIDC+1, ... so several
	// sessions can be active at once.
	DistinctSIDs bool
	// Announce, if set, is the algorithm triple placed in the Open Session
	// Response instead of the requested one; the BMC then follows through
	// with the announced algorithms.
	Announce *Suite
	// AnnounceWildcard[k] makes the response's algorithm payload k (0 auth,
	// 1 integrity, 2 confidentiality) a zero-length "wildcard" payload; the BMC
	// then carries on with algorithm None for it.
	AnnounceWildcard [3]bool
	// CipherSuiteData is the raw record data served in 16-byte chunks.
	CipherSuiteData []byte

	DeviceID     []byte
	Chassis      []byte
	SessionInfo  []byte
	AuthCaps     []byte
	SystemGUID   [16]byte
	Sensors      map[byte][]byte // sensor number -> Get Sensor Reading response data
	PowerReading []byte          // 17 bytes after the body code
	DCMICaps     map[byte][]byte // parameter -> bytes after body code
	// DCMISensors: entity -> record IDs; DCMISensorErr: entity -> completion code
	DCMISensors   map[byte][]uint16
	DCMISensorErr map[byte]byte
	DCMIPageSize  int
	Repo          *Repo
}

// Session is the BMC's view of one RMCP+ session.
type Session struct {
	HS      Handshake
	SIK     []byte
	K1, K2  []byte
	Integ   func([]byte) []byte
	IntegN  int
	Active  bool
	Closed  bool
	InSeq   uint32 // highest inbound session sequence number accepted
	OutSeq  uint32
	ivCtr   uint64
	PrivLvl byte
}

// Rx is everything the BMC derived from one received datagram.
type Rx struct {
	Raw      []byte
	Pkt      *Packet
	Sess     *Session
	Problems []string // ways in which the datagram does not conform
	IV       []byte
	Plain    []byte // decrypted (or clear) IPMI message bytes
	Msg      *Msg
	Drop     bool // a conforming BMC would not answer
	// honest IPMI response
	CC   byte
	Body []byte
	// honest RMCP+ setup response
	ReplyPType   byte
	ReplyPayload []byte
	Fields       map[string]int64 // decoded request fields, for encoding oracles
	Name         string           // command / payload name
}

func (rx *Rx) problem(f string, a ...any) {
	rx.Problems = append(rx.Problems, fmt.Sprintf(f, a...))
}

// BMC is the reference managed system.
type BMC struct {
	Cfg      Config
	Sessions map[uint32]*Session // by SIDC
	opened   uint32
	Log      []*Rx
	pending  *Session
	// IVs seen from the console per session, for the no-reuse oracle
	IVSeen map[string]int
}

func NewBMC(cfg Config) *BMC {
	return &BMC{Cfg: cfg, Sessions: map[uint32]*Session{}, IVSeen: map[string]int{}}
}

// Digest summarises protocol state for state counting.
func (b *BMC) Digest() uint64 {
	h := sha256.New()
	for sid, s := range b.Sessions {
		fmt.Fprintf(h, "%d:%v:%v:%d:%d|", sid, s.Active, s.Closed, s.InSeq, s.OutSeq)
	}
	if b.Cfg.Repo != nil {
		fmt.Fprintf(h, "repo:%d:%d:%d:%d", len(b.Cfg.Repo.Recs), b.Cfg.Repo.LastAdd, b.Cfg.Repo.LastErase, b.Cfg.Repo.resID)
	}
	return binary.LittleEndian.Uint64(h.Sum(nil))
}

// Receive processes one datagram from the console.
func (b *BMC) Receive(d []byte) *Rx {
	rx := &Rx{Raw: append([]byte{}, d...), Fields: map[string]int64{}}
	b.Log = append(b.Log, rx)
	// peek the session ID to know the AuthCode length
	authLen := 0
	var sess *Session
	if len(d) >= 16 && d[4] == 0x06 && d[5]&0x3f != PTOEM {
		sid := binary.LittleEndian.Uint32(d[6:10])
		if s, ok := b.Sessions[sid]; ok && sid != 0 {
			sess = s
			authLen = s.IntegN
		}
	}
	p, err := ParsePacket(rx.Raw, authLen)
	if err != nil {
		rx.problem("unparseable datagram: %v", err)
		rx.Drop = true
		return rx
	}
	rx.Pkt = p
	switch p.PType {
	case PTOpenReq:
		b.openSession(rx)
	case PTRAKP1:
		b.rakp1(rx)
	case PTRAKP3:
		b.rakp3(rx)
	case PTIPMI:
		if p.SID == 0 {
			b.sessionless(rx)
		} else {
			b.inSession(rx, sess)
		}
	default:
		rx.problem("unexpected payload type %#02x from a remote console", p.PType)
		rx.Drop = true
	}
	return rx
}

func (b *BMC) checkNullWrapper(rx *Rx) {
	p := rx.Pkt
	if p.SID != 0 || p.Seq != 0 {
		rx.problem("datagram outside a session has session ID %#x sequence %d, want 0/0", p.SID, p.Seq)
	}
	if p.Encrypted || p.Authed {
		rx.problem("datagram outside a session has encrypted=%v authenticated=%v", p.Encrypted, p.Authed)
	}
	if len(p.Trailing) != 0 {
		rx.problem("%d bytes after the payload of an unauthenticated packet", len(p.Trailing))
	}
}

func algPayload(kind byte, alg byte) []byte {
	return []byte{kind, 0, 0, 8, alg, 0, 0, 0}
}

func (b *BMC) openSession(rx *Rx) {
	rx.Name = "Open Session Request"
	b.checkNullWrapper(rx)
	d := rx.Pkt.Payload
	if len(d) != 32 {
		rx.problem("Open Session Request is %d bytes, want 32", len(d))
		rx.Drop = true
		return
	}
	tag := d[0]
	rx.Fields["tag"] = int64(tag)
	rx.Fields["priv"] = int64(d[1])
	if d[1]&0xf0 != 0 || d[2] != 0 || d[3] != 0 {
		rx.problem("reserved bits set in Open Session Request header % x", d[:4])
	}
	sidm := binary.LittleEndian.Uint32(d[4:8])
	rx.Fields["sidm"] = int64(sidm)
	var req Suite
	for i, kind := range []byte{0, 1, 2} {
		pl := d[8+8*i : 16+8*i]
		if pl[0] != kind || pl[1] != 0 || pl[2] != 0 || pl[3] != 8 || pl[5] != 0 || pl[6] != 0 || pl[7] != 0 || pl[4]&0xc0 != 0 {
			rx.problem("algorithm payload %d malformed: % x", kind, pl)
		}
		if pl[3] == 0 {
			rx.Fields[fmt.Sprintf("wildcard%d", kind)] = 1
		}
		switch kind {
		case 0:
			req.Auth = pl[4] & 0x3f
		case 1:
			req.Integ = pl[4] & 0x3f
		case 2:
			req.Conf = pl[4] & 0x3f
		}
	}
	rx.Fields["auth"], rx.Fields["integ"], rx.Fields["conf"] = int64(req.Auth), int64(req.Integ), int64(req.Conf)
	ann := req
	if b.Cfg.Announce != nil {
		ann = *b.Cfg.Announce
	}
	if b.Cfg.AnnounceWildcard[0] {
		ann.Auth = 0
	}
	if b.Cfg.AnnounceWildcard[1] {
		ann.Integ = 0
	}
	if b.Cfg.AnnounceWildcard[2] {
		ann.Conf = 0
	}
	s := &Session{}
	s.HS.Suite = ann
	s.HS.SIDM = sidm
	s.HS.SIDC = b.Cfg.SIDC
	if b.Cfg.DistinctSIDs {
		s.HS.SIDC += b.opened
		b.opened++
	}
	s.HS.GUIDC = b.Cfg.GUID
	s.HS.RC = b.Cfg.RC
	b.pending = s
	b.Sessions[s.HS.SIDC] = s
	rsp := []byte{tag, 0, d[1] & 0x0f, 0}
	if b.Cfg.OpenRspPriv != nil {
		// the maximum privilege level the BMC allows for the proposed algorithms
		// may differ from the one requested (13.18)
		rsp[2] = *b.Cfg.OpenRspPriv & 0x0f
		if b.Cfg.OpenRspPrivRaw {
			rsp[2] = *b.Cfg.OpenRspPriv
		}
	}
	rsp = append(rsp, le32(sidm)...)
	rsp = append(rsp, le32(s.HS.SIDC)...)
	for k, alg := range []byte{ann.Auth, ann.Integ, ann.Conf} {
		if b.Cfg.AnnounceWildcard[k] {
			rsp = append(rsp, byte(k), 0, 0, 0, 0, 0, 0, 0)
		} else {
			pl := algPayload(byte(k), alg)
			if b.Cfg.AnnounceLen[k] != 0 {
				pl[3] = b.Cfg.AnnounceLen[k]
			}
			rsp = append(rsp, pl...)
		}
	}
	rx.ReplyPType, rx.ReplyPayload = PTOpenRsp, rsp
}

func (b *BMC) kuid() []byte { return b.Cfg.Password }

func (b *BMC) kg() []byte {
	if len(b.Cfg.KG) != 0 {
		return b.Cfg.KG
	}
	return b.Cfg.Password
}

func (b *BMC) rakp1(rx *Rx) {
	rx.Name = "RAKP Message 1"
	b.checkNullWrapper(rx)
	d := rx.Pkt.Payload
	if len(d) < 28 {
		rx.problem("RAKP Message 1 is %d bytes, minimum 28", len(d))
		rx.Drop = true
		return
	}
	tag := d[0]
	rx.Fields["tag"] = int64(tag)
	if d[1] != 0 || d[2] != 0 || d[3] != 0 || d[25] != 0 || d[26] != 0 || d[24]&0xe0 != 0 {
		rx.problem("reserved bytes set in RAKP Message 1")
	}
	sidc := binary.LittleEndian.Uint32(d[4:8])
	rx.Fields["sidc"] = int64(sidc)
	ul := int(d[27])
	rx.Fields["role"] = int64(d[24])
	rx.Fields["ulen"] = int64(ul)
	if ul > 16 {
		rx.problem("user name length %d > 16", ul)
		rx.Drop = true
		return
	}
	if len(d) != 28+ul {
		rx.problem("RAKP Message 1 is %d bytes, want %d for a %d-byte user name", len(d), 28+ul, ul)
		if len(d) < 28+ul {
			rx.Drop = true
			return
		}
	}
	s := b.Sessions[sidc]
	fail := func(status byte) {
		rx.ReplyPType = PTRAKP2
		rx.ReplyPayload = append([]byte{tag, status, 0, 0}, le32(0)...)
	}
	if s == nil || s.Active {
		rx.problem("RAKP Message 1 for unknown managed system session ID %#x", sidc)
		fail(0x02)
		return
	}
	rx.Sess = s
	copy(s.HS.RM[:], d[8:24])
	s.HS.RoleM = d[24]
	s.HS.Username = append([]byte{}, d[28:28+ul]...)
	if b.Cfg.CheckUser && !bytes.Equal(s.HS.Username, b.Cfg.Username) {
		rx.problem("RAKP Message 1 names user %q, the BMC only knows %q", s.HS.Username, b.Cfg.Username)
		fail(0x0D)
		return
	}
	code, err := s.HS.RAKP2Code(b.kuid())
	if err != nil {
		fail(0x11)
		return
	}
	rsp := []byte{tag, 0, 0, 0}
	rsp = append(rsp, le32(s.HS.SIDM)...)
	rsp = append(rsp, s.HS.RC[:]...)
	rsp = append(rsp, s.HS.GUIDC[:]...)
	rsp = append(rsp, code...)
	rx.ReplyPType, rx.ReplyPayload = PTRAKP2, rsp
}

func (b *BMC) rakp3(rx *Rx) {
	rx.Name = "RAKP Message 3"
	b.checkNullWrapper(rx)
	d := rx.Pkt.Payload
	if len(d) < 8 {
		rx.problem("RAKP Message 3 is %d bytes, minimum 8", len(d))
		rx.Drop = true
		return
	}
	tag, status := d[0], d[1]
	rx.Fields["tag"], rx.Fields["status"] = int64(tag), int64(status)
	if d[2] != 0 || d[3] != 0 {
		rx.problem("reserved bytes set in RAKP Message 3")
	}
	sidc := binary.LittleEndian.Uint32(d[4:8])
	rx.Fields["sidc"] = int64(sidc)
	s := b.Sessions[sidc]
	fail := func(status byte) {
		rx.ReplyPType = PTRAKP4
		rx.ReplyPayload = append([]byte{tag, status, 0, 0}, le32(0)...)
	}
	if s != nil && s.Active && s.InSeq == 0 && status == 0 {
		// retransmitted RAKP Message 3 (our RAKP Message 4 was lost): answer again
		if want, err := s.HS.RAKP3Code(b.kuid()); err == nil && hmac.Equal(want, d[8:]) {
			rx.Sess = s
			icv, _ := s.HS.RAKP4ICV(s.SIK)
			rsp := []byte{tag, 0, 0, 0}
			rsp = append(rsp, le32(s.HS.SIDM)...)
			rx.ReplyPType, rx.ReplyPayload = PTRAKP4, append(rsp, icv...)
			return
		}
	}
	if s == nil || s.Active {
		rx.problem("RAKP Message 3 for unknown managed system session ID %#x", sidc)
		fail(0x02)
		return
	}
	rx.Sess = s
	if status != 0 {
		delete(b.Sessions, sidc)
		rx.Drop = true
		return
	}
	want, err := s.HS.RAKP3Code(b.kuid())
	if err != nil {
		fail(0x11)
		return
	}
	if !hmac.Equal(want, d[8:]) {
		rx.problem("RAKP Message 3 key exchange authentication code is wrong: got % x want % x", d[8:], want)
		fail(0x0F)
		return
	}
	sik, _ := s.HS.SIK(b.kg())
	s.SIK = sik
	s.K1, _ = s.HS.Kn(sik, 1)
	s.K2, _ = s.HS.Kn(sik, 2)
	if s.HS.Suite.Integ != IntegNone {
		f, err := Integrity(s.HS.Suite.Integ, s.K1)
		n := IntegLen(s.HS.Suite.Integ)
		if err != nil {
			if !b.Cfg.FollowUnknownAlgs {
				fail(0x11)
				return
			}
			// an algorithm only this BMC knows (OEM range): RAKP does not depend
			// on it, the session is activated; its AuthCodes are opaque to others
			k1, alg := s.K1, s.HS.Suite.Integ
			f = func(d []byte) []byte {
				h := sha256.Sum256(append(append([]byte{alg}, k1...), d...))
				return h[:12]
			}
			n = 12
		}
		s.Integ, s.IntegN = f, n
	}
	if s.HS.Suite.Conf != ConfNone && s.HS.Suite.Conf != ConfAES128 && !b.Cfg.FollowUnknownAlgs {
		fail(0x11)
		return
	}
	icv, _ := s.HS.RAKP4ICV(sik)
	s.Active = true
	rsp := []byte{tag, 0, 0, 0}
	rsp = append(rsp, le32(s.HS.SIDM)...)
	rsp = append(rsp, icv...)
	rx.ReplyPType, rx.ReplyPayload = PTRAKP4, rsp
}

func (b *BMC) sessionless(rx *Rx) {
	b.checkNullWrapper(rx)
	rx.Plain = rx.Pkt.Payload
	b.message(rx)
}

func (b *BMC) inSession(rx *Rx, s *Session) {
	p := rx.Pkt
	if s == nil || !s.Active {
		rx.problem("datagram addressed to session ID %#x, which is not an active session of this BMC", p.SID)
		rx.Drop = true
		return
	}
	rx.Sess = s
	// a BMC accepts any sequence number ahead of the last one it accepted
	// (datagrams may be lost on the way); reuse or going backwards is refused
	if p.Seq <= s.InSeq {
		rx.problem("session sequence number %d is not greater than the last accepted %d", p.Seq, s.InSeq)
	} else {
		s.InSeq = p.Seq
	}
	wantAuth := s.HS.Suite.Integ != IntegNone
	wantEnc := s.HS.Suite.Conf != ConfNone
	if p.Authed != wantAuth {
		rx.problem("authenticated flag %v but negotiated integrity algorithm is %d", p.Authed, s.HS.Suite.Integ)
	}
	if p.Encrypted != wantEnc {
		rx.problem("encrypted flag %v but negotiated confidentiality algorithm is %d", p.Encrypted, s.HS.Suite.Conf)
	}
	if p.Authed && s.Integ != nil {
		if err := p.CheckTrailer(); err != nil {
			rx.problem("session trailer: %v", err)
		}
		if want := s.Integ(p.AuthRange); !hmac.Equal(want, p.AuthCode) {
			rx.problem("AuthCode % x is not the negotiated keyed hash over the %d bytes auth type..next header (want % x)", p.AuthCode, len(p.AuthRange), want)
			rx.Drop = true
		}
	} else if wantAuth {
		rx.Drop = true
	}
	if p.Encrypted {
		if s.HS.Suite.Conf != ConfAES128 {
			rx.Drop = true
			return
		}
		plain, iv, err := AESDecrypt(s.K2, p.Payload)
		rx.IV = iv
		if iv != nil {
			k := fmt.Sprintf("%x/%x", s.HS.SIDC, iv)
			b.IVSeen[k]++
			if b.IVSeen[k] > 1 {
				rx.problem("initialisation vector % x used %d times in this session", iv, b.IVSeen[k])
			}
		}
		if err != nil {
			rx.problem("confidentiality: %v", err)
			rx.Drop = true
			return
		}
		rx.Plain = plain
	} else {
		rx.Plain = p.Payload
		if wantEnc {
			rx.Drop = true
		}
	}
	b.message(rx)
}

func (b *BMC) message(rx *Rx) {
	m, err := ParseMsg(rx.Plain)
	if err != nil {
		rx.problem("IPMI message: %v", err)
		rx.Drop = true
		return
	}
	rx.Msg = m
	if m.NetFn&1 != 0 {
		rx.problem("NetFn %#02x is a response function code in a request", m.NetFn)
	}
	if m.Addr1 != 0x20 {
		rx.problem("responder address %#02x, want 20 (BMC)", m.Addr1)
	}
	if m.Addr2 != 0x81 {
		rx.problem("requester address %#02x, want 81 (remote console software ID)", m.Addr2)
	}
	if m.LUN2 != 0 {
		rx.problem("requester LUN %d, want 0", m.LUN2)
	}
	rx.CC, rx.Body = b.dispatch(rx, m)
}

func (b *BMC) dispatch(rx *Rx, m *Msg) (byte, []byte) {
	d := m.Data
	badLen := func(want ...int) bool {
		for _, w := range want {
			if len(d) == w {
				return false
			}
		}
		rx.problem("%s request data is %d bytes, want %v", rx.Name, len(d), want)
		return true
	}
	switch {
	case m.NetFn == 0x06 && m.Cmd == 0x01:
		rx.Name = "Get Device ID"
		if badLen(0) {
			return 0xC7, nil
		}
		return 0, b.Cfg.DeviceID
	case m.NetFn == 0x06 && m.Cmd == 0x37:
		rx.Name = "Get System GUID"
		if badLen(0) {
			return 0xC7, nil
		}
		return 0, b.Cfg.SystemGUID[:]
	case m.NetFn == 0x06 && m.Cmd == 0x38:
		rx.Name = "Get Channel Authentication Capabilities"
		if badLen(2) {
			return 0xC7, nil
		}
		rx.Fields["b0"], rx.Fields["b1"] = int64(d[0]), int64(d[1])
		if d[0]&0x70 != 0 || d[1]&0xf0 != 0 {
			rx.problem("reserved bits set in Get Channel Authentication Capabilities request % x", d)
		}
		return 0, b.Cfg.AuthCaps
	case m.NetFn == 0x06 && m.Cmd == 0x3b:
		rx.Name = "Set Session Privilege Level"
		if badLen(1) {
			return 0xC7, nil
		}
		rx.Fields["b0"] = int64(d[0])
		if d[0]&0xf0 != 0 {
			rx.problem("reserved bits set in Set Session Privilege Level request %#02x", d[0])
		}
		lvl := d[0] & 0x0f
		if rx.Sess != nil {
			if lvl != 0 {
				rx.Sess.PrivLvl = lvl
			}
			return 0, []byte{rx.Sess.PrivLvl}
		}
		return 0, []byte{lvl}
	case m.NetFn == 0x06 && m.Cmd == 0x3c:
		rx.Name = "Close Session"
		if badLen(4, 5) {
			return 0xC7, nil
		}
		id := binary.LittleEndian.Uint32(d[:4])
		rx.Fields["id"] = int64(id)
		if len(d) == 5 {
			rx.Fields["handle"] = int64(d[4])
			if id != 0 {
				rx.problem("Close Session carries a session handle although the session ID is non-zero")
			}
		} else if id == 0 {
			rx.problem("Close Session with session ID 0 must carry a session handle")
		}
		if s, ok := b.Sessions[id]; ok && s.Active {
			s.Closed = true
			return 0, nil
		}
		return 0x87, nil
	case m.NetFn == 0x06 && m.Cmd == 0x3d:
		rx.Name = "Get Session Info"
		if badLen(1, 2, 5) {
			return 0xC7, nil
		}
		rx.Fields["index"] = int64(d[0])
		switch {
		case d[0] == 0xFE:
			if len(d) != 2 {
				rx.problem("Get Session Info by handle needs 2 bytes, got %d", len(d))
			} else {
				rx.Fields["handle"] = int64(d[1])
			}
		case d[0] == 0xFF:
			if len(d) != 5 {
				rx.problem("Get Session Info by ID needs 5 bytes, got %d", len(d))
			} else {
				rx.Fields["id"] = int64(binary.LittleEndian.Uint32(d[1:]))
			}
		default:
			if len(d) != 1 {
				rx.problem("Get Session Info by index needs 1 byte, got %d", len(d))
			}
		}
		return 0, b.Cfg.SessionInfo
	case m.NetFn == 0x06 && m.Cmd == 0x54:
		rx.Name = "Get Channel Cipher Suites"
		if badLen(3) {
			return 0xC7, nil
		}
		rx.Fields["channel"], rx.Fields["ptype"], rx.Fields["index"] = int64(d[0]), int64(d[1]), int64(d[2])
		if d[0]&0xf0 != 0 || d[1]&0xc0 != 0 || d[2]&0x40 != 0 {
			rx.problem("reserved bits set in Get Channel Cipher Suites request % x", d)
		}
		idx := int(d[2] & 0x3f)
		data := b.Cfg.CipherSuiteData
		lo := idx * 16
		if lo > len(data) {
			lo = len(data)
		}
		hi := lo + 16
		if hi > len(data) {
			hi = len(data)
		}
		ch := d[0] & 0x0f
		if ch == 0x0e {
			ch = 1
		}
		return 0, append([]byte{ch}, data[lo:hi]...)
	case m.NetFn == 0x00 && m.Cmd == 0x01:
		rx.Name = "Get Chassis Status"
		if badLen(0) {
			return 0xC7, nil
		}
		return 0, b.Cfg.Chassis
	case m.NetFn == 0x00 && m.Cmd == 0x02:
		rx.Name = "Chassis Control"
		if badLen(1) {
			return 0xC7, nil
		}
		rx.Fields["b0"] = int64(d[0])
		return 0, nil
	case m.NetFn == 0x0a && m.Cmd == 0x20:
		rx.Name = "Get SDR Repository Info"
		if badLen(0) {
			return 0xC7, nil
		}
		if b.Cfg.Repo == nil {
			return 0xC1, nil
		}
		return 0, b.Cfg.Repo.Info()
	case m.NetFn == 0x0a && m.Cmd == 0x22:
		rx.Name = "Reserve SDR Repository"
		if badLen(0) {
			return 0xC7, nil
		}
		if b.Cfg.Repo == nil {
			return 0xC1, nil
		}
		return 0, le16(b.Cfg.Repo.Reserve())
	case m.NetFn == 0x0a && m.Cmd == 0x23:
		rx.Name = "Get SDR"
		if badLen(6) {
			return 0xC7, nil
		}
		res, id := binary.LittleEndian.Uint16(d[0:2]), binary.LittleEndian.Uint16(d[2:4])
		rx.Fields["res"], rx.Fields["id"], rx.Fields["off"], rx.Fields["len"] = int64(res), int64(id), int64(d[4]), int64(d[5])
		if b.Cfg.Repo == nil {
			return 0xC1, nil
		}
		return b.Cfg.Repo.Get(res, id, d[4], d[5])
	case m.NetFn == 0x04 && m.Cmd == 0x2d:
		rx.Name = "Get Sensor Reading"
		if badLen(1) {
			return 0xC7, nil
		}
		rx.Fields["num"] = int64(d[0])
		rx.Fields["lun"] = int64(m.LUN1)
		if v, ok := b.Cfg.Sensors[d[0]]; ok {
			return 0, v
		}
		return 0xCB, nil
	case m.NetFn == 0x2c && len(d) >= 1 && d[0] == 0xDC:
		return b.dcmi(rx, m, d)
	case m.NetFn == 0x2c && len(d) >= 1:
		// another defining body: not implemented here; the body code is echoed
		rx.Name = fmt.Sprintf("Group extension body %#02x cmd %#02x", d[0], m.Cmd)
		return 0xC1, d[:1]
	case m.NetFn == 0x2c:
		rx.Name = "Group extension"
		rx.problem("group-extension request without a body code")
		return 0xC1, nil
	case m.NetFn == 0x2e && len(d) >= 3:
		// OEM/group request: the enterprise number is echoed
		rx.Name = fmt.Sprintf("OEM enterprise %#x cmd %#02x", uint32(d[0])|uint32(d[1])<<8|uint32(d[2])<<16, m.Cmd)
		return 0xC1, d[:3]
	case m.NetFn == 0x2e:
		rx.Name = "OEM"
		rx.problem("OEM request without an enterprise number")
		return 0xC1, nil
	}
	rx.Name = fmt.Sprintf("NetFn %#02x cmd %#02x", m.NetFn, m.Cmd)
	return 0xC1, nil
}

func le16(v uint16) []byte { return []byte{byte(v), byte(v >> 8)} }

func (b *BMC) dcmi(rx *Rx, m *Msg, d []byte) (byte, []byte) {
	dc := []byte{0xDC}
	body := d[1:]
	switch m.Cmd {
	case 0x01:
		rx.Name = "Get DCMI Capabilities Info"
		if len(body) != 1 {
			rx.problem("Get DCMI Capabilities Info request data %d bytes after body code, want 1", len(body))
			return 0xC7, dc
		}
		rx.Fields["param"] = int64(body[0])
		if v, ok := b.Cfg.DCMICaps[body[0]]; ok {
			return 0, append(dc, v...)
		}
		return 0xCC, dc
	case 0x02:
		rx.Name = "Get Power Reading"
		if len(body) != 3 {
			rx.problem("Get Power Reading request data %d bytes after body code, want 3", len(body))
			return 0xC7, dc
		}
		rx.Fields["mode"], rx.Fields["period"], rx.Fields["rsvd"] = int64(body[0]), int64(body[1]), int64(body[2])
		if body[2] != 0 {
			rx.problem("reserved byte set in Get Power Reading request")
		}
		return 0, append(dc, b.Cfg.PowerReading...)
	case 0x07:
		rx.Name = "Get DCMI Sensor Info"
		if len(body) != 4 {
			rx.problem("Get DCMI Sensor Info request data %d bytes after body code, want 4", len(body))
			return 0xC7, dc
		}
		rx.Fields["type"], rx.Fields["entity"], rx.Fields["instance"], rx.Fields["start"] = int64(body[0]), int64(body[1]), int64(body[2]), int64(body[3])
		if cc, ok := b.Cfg.DCMISensorErr[body[1]]; ok {
			return cc, dc
		}
		ids := b.Cfg.DCMISensors[body[1]]
		start := int(body[3])
		if body[2] != 0 { // a specific instance
			start = int(body[2])
		}
		page := b.Cfg.DCMIPageSize
		if page <= 0 {
			page = 8
		}
		out := append(dc, byte(len(ids)))
		var sel []uint16
		if start >= 1 && start <= len(ids) {
			hi := start - 1 + page
			if body[2] != 0 {
				hi = start
			}
			if hi > len(ids) {
				hi = len(ids)
			}
			sel = ids[start-1 : hi]
		}
		out = append(out, byte(len(sel)))
		for _, id := range sel {
			out = append(out, le16(id)...)
		}
		return 0, out
	}
	rx.Name = fmt.Sprintf("DCMI cmd %#02x", m.Cmd)
	return 0xC1, dc
}

// Respond serialises a response to rx with the given completion code and
// data, in rx's session context. Returns nil when rx carries no request.
func (b *BMC) Respond(rx *Rx, cc byte, body []byte) []byte {
	if rx.Msg == nil {
		return nil
	}
	msg := ResponseTo(rx.Msg, cc, body)
	return b.WrapIPMI(rx.Sess, msg)
}

// WrapIPMI wraps an IPMI message for the given session (nil: session-less).
func (b *BMC) WrapIPMI(s *Session, msg []byte) []byte {
	if s == nil || !s.Active {
		return BuildPacket(PTIPMI, false, 0, 0, msg, nil)
	}
	s.OutSeq++
	payload := msg
	enc := false
	if s.HS.Suite.Conf == ConfAES128 {
		enc = true
		payload = AESEncrypt(s.K2, s.NextIV(), msg)
	}
	return BuildPacket(PTIPMI, enc, s.HS.SIDM, s.OutSeq, payload, s.Integ)
}

// NextIV returns a fresh deterministic IV for BMC-originated packets.
func (s *Session) NextIV() [16]byte {
	s.ivCtr++
	h := sha256.Sum256(append([]byte("bmc-iv"), byte(s.ivCtr), byte(s.ivCtr>>8), byte(s.HS.SIDC)))
	var iv [16]byte
	copy(iv[:], h[:16])
	return iv
}

// Honest serialises the reply a conforming BMC sends for rx (nil = no reply).
func (b *BMC) Honest(rx *Rx) []byte {
	if rx.Drop {
		return nil
	}
	if rx.ReplyPayload != nil {
		return BuildPacket(rx.ReplyPType, false, 0, 0, rx.ReplyPayload, nil)
	}
	if rx.Msg != nil {
		return b.Respond(rx, rx.CC, rx.Body)
	}
	return nil
}

// ---- SDR repository ----

type SDRRec struct {
	ID   uint16
	Data []byte // whole record including the 5-byte header
}

type Repo struct {
	Recs      []SDRRec
	LastAdd   uint32
	LastErase uint32
	resID     uint16
	resValid  bool
	// KeepReservation makes modifications not cancel the reservation (a BMC
	// is required to cancel; used to test that timestamps alone suffice).
	KeepReservation bool
	Version         byte
}

func (r *Repo) Info() []byte {
	v := r.Version
	if v == 0 {
		v = 0x51
	}
	b := []byte{v}
	b = append(b, le16(uint16(len(r.Recs)))...)
	b = append(b, 0xFF, 0xFF)
	b = append(b, le32(r.LastAdd)...)
	b = append(b, le32(r.LastErase)...)
	b = append(b, 0x2A) // supports delete, reserve, non-modal update
	return b
}

func (r *Repo) Reserve() uint16 {
	r.resID++
	if r.resID == 0 {
		r.resID = 1
	}
	r.resValid = true
	return r.resID
}

func (r *Repo) modified() {
	if !r.KeepReservation {
		r.resValid = false
	}
}

// Add appends a record and bumps the addition timestamp by dt seconds.
func (r *Repo) Add(rec SDRRec, dt uint32) {
	r.Recs = append(r.Recs, rec)
	r.LastAdd += dt
	r.modified()
}

// Erase removes record i and bumps the erase timestamp by dt seconds.
func (r *Repo) Erase(i int, dt uint32) {
	r.Recs = append(append([]SDRRec{}, r.Recs[:i]...), r.Recs[i+1:]...)
	r.LastErase += dt
	r.modified()
}

func (r *Repo) CancelReservation() { r.resValid = false }

func (r *Repo) Get(res, id uint16, off, n byte) (byte, []byte) {
	if len(r.Recs) == 0 {
		return 0xCB, nil
	}
	idx := -1
	switch id {
	case 0x0000:
		idx = 0
	case 0xFFFF:
		idx = len(r.Recs) - 1
	default:
		for i, rec := range r.Recs {
			if rec.ID == id {
				idx = i
			}
		}
	}
	if idx < 0 {
		return 0xCB, nil
	}
	if off != 0 || res != 0 {
		// partial reads need the current reservation (33.12)
		if !r.resValid || res != r.resID {
			return 0xC5, nil
		}
	}
	rec := r.Recs[idx]
	next := uint16(0xFFFF)
	if idx+1 < len(r.Recs) {
		next = r.Recs[idx+1].ID
	}
	if int(off) > len(rec.Data) {
		return 0xC9, nil
	}
	hi := len(rec.Data)
	if n != 0xFF && int(off)+int(n) < hi {
		hi = int(off) + int(n)
	}
	return 0, append(le16(next), rec.Data[off:hi]...)
}

// Clone deep-copies a repository.
func (r *Repo) Clone() *Repo {
	c := *r
	c.Recs = nil
	for _, rec := range r.Recs {
		c.Recs = append(c.Recs, SDRRec{rec.ID, bytes.Clone(rec.Data)})
	}
	return &c
}
