package ref

import (
	"crypto/aes"
	"crypto/cipher"
	"crypto/hmac"
	"crypto/md5"
	"crypto/sha1"
	"crypto/sha256"
	"encoding/binary"
	"errors"
	"fmt"
	"hash"
)

// Algorithm numbers (13.28, tables 13-17..13-19).
const (
	AuthNone   = 0
	AuthSHA1   = 1
	AuthMD5    = 2
	AuthSHA256 = 3

	IntegNone       = 0
	IntegSHA1_96    = 1
	IntegMD5_128    = 2
	IntegPlainMD5   = 3
	IntegSHA256_128 = 4

	ConfNone    = 0
	ConfAES128  = 1
	ConfXRC4128 = 2
	ConfXRC440  = 3
)

type Suite struct{ Auth, Integ, Conf byte }

func (s Suite) String() string { return fmt.Sprintf("%d/%d/%d", s.Auth, s.Integ, s.Conf) }

func authHash(a byte) (func() hash.Hash, int, error) {
	switch a {
	case AuthSHA1:
		return sha1.New, 12, nil
	case AuthMD5:
		return md5.New, 16, nil
	case AuthSHA256:
		return sha256.New, 16, nil
	}
	return nil, 0, fmt.Errorf("authentication algorithm %d not implemented by the reference", a)
}

// AuthCodeLen is the length of the RAKP2/RAKP3 key exchange authentication code.
func AuthCodeLen(a byte) int {
	switch a {
	case AuthSHA1:
		return 20
	case AuthMD5:
		return 16
	case AuthSHA256:
		return 32
	}
	return 0
}

func mac(h func() hash.Hash, key []byte, parts ...[]byte) []byte {
	m := hmac.New(h, key)
	for _, p := range parts {
		m.Write(p)
	}
	return m.Sum(nil)
}

func le32(v uint32) []byte { return binary.LittleEndian.AppendUint32(nil, v) }

// Handshake holds the values exchanged in one RAKP handshake.
type Handshake struct {
	Suite    Suite
	SIDM     uint32 // remote console session ID
	SIDC     uint32 // managed system (BMC) session ID
	RM       [16]byte
	RC       [16]byte
	GUIDC    [16]byte
	RoleM    byte // whole byte as sent in RAKP1 (lookup bit 4 + privilege)
	Username []byte
}

func (h *Handshake) uname() [][]byte {
	return [][]byte{{h.RoleM}, {byte(len(h.Username))}, h.Username}
}

// RAKP2Code = HMAC_Kuid(SIDm, SIDc, Rm, Rc, GUIDc, RoleM, ULen, UName) (13.21).
func (h *Handshake) RAKP2Code(kuid []byte) ([]byte, error) {
	f, _, err := authHash(h.Suite.Auth)
	if err != nil {
		return nil, err
	}
	parts := append([][]byte{le32(h.SIDM), le32(h.SIDC), h.RM[:], h.RC[:], h.GUIDC[:]}, h.uname()...)
	return mac(f, kuid, parts...), nil
}

// RAKP3Code = HMAC_Kuid(Rc, SIDm, RoleM, ULen, UName) (13.22).
func (h *Handshake) RAKP3Code(kuid []byte) ([]byte, error) {
	f, _, err := authHash(h.Suite.Auth)
	if err != nil {
		return nil, err
	}
	parts := append([][]byte{h.RC[:], le32(h.SIDM)}, h.uname()...)
	return mac(f, kuid, parts...), nil
}

// SIK = HMAC_Kg(Rm, Rc, RoleM, ULen, UName) (13.31); Kg = Kuid when no BMC key.
func (h *Handshake) SIK(kg []byte) ([]byte, error) {
	f, _, err := authHash(h.Suite.Auth)
	if err != nil {
		return nil, err
	}
	parts := append([][]byte{h.RM[:], h.RC[:]}, h.uname()...)
	return mac(f, kg, parts...), nil
}

// RAKP4ICV = HMAC_SIK(Rm, SIDc, GUIDc) truncated per algorithm (13.23, 13.28.1).
func (h *Handshake) RAKP4ICV(sik []byte) ([]byte, error) {
	f, n, err := authHash(h.Suite.Auth)
	if err != nil {
		return nil, err
	}
	return mac(f, sik, h.RM[:], le32(h.SIDC), h.GUIDC[:])[:n], nil
}

// Kn = HMAC_SIK(n repeated 20 times) (13.32).
func (h *Handshake) Kn(sik []byte, n byte) ([]byte, error) {
	f, _, err := authHash(h.Suite.Auth)
	if err != nil {
		return nil, err
	}
	c := make([]byte, 20)
	for i := range c {
		c[i] = n
	}
	return mac(f, sik, c), nil
}

// IntegLen is the AuthCode length of an integrity algorithm, -1 if unknown.
func IntegLen(i byte) int {
	switch i {
	case IntegNone:
		return 0
	case IntegSHA1_96:
		return 12
	case IntegMD5_128, IntegPlainMD5, IntegSHA256_128:
		return 16
	}
	return -1
}

// Integrity returns the AuthCode function for algorithm i keyed with k1.
func Integrity(i byte, k1 []byte) (func([]byte) []byte, error) {
	switch i {
	case IntegSHA1_96:
		return func(b []byte) []byte { return mac(sha1.New, k1, b)[:12] }, nil
	case IntegMD5_128:
		return func(b []byte) []byte { return mac(md5.New, k1, b) }, nil
	case IntegSHA256_128:
		return func(b []byte) []byte { return mac(sha256.New, k1, b)[:16] }, nil
	}
	return nil, fmt.Errorf("integrity algorithm %d not implemented by the reference", i)
}

// AESDecrypt decrypts an AES-CBC-128 confidentiality payload (13.29) and checks
// the confidentiality pad: pad bytes 01,02,..,n followed by the pad length n.
func AESDecrypt(k2 []byte, payload []byte) (plain []byte, iv []byte, err error) {
	if len(payload) < 32 || len(payload)%16 != 0 {
		return nil, nil, fmt.Errorf("AES payload of %d bytes: need IV plus a whole number (>=1) of blocks", len(payload))
	}
	c, _ := aes.NewCipher(k2[:16])
	iv = payload[:16]
	out := make([]byte, len(payload)-16)
	cipher.NewCBCDecrypter(c, iv).CryptBlocks(out, payload[16:])
	n := int(out[len(out)-1])
	if n > 15 {
		return nil, iv, fmt.Errorf("confidentiality pad length %d > 15", n)
	}
	if n+1 > len(out) {
		return nil, iv, errors.New("confidentiality pad longer than the data")
	}
	for i := 0; i < n; i++ {
		if out[len(out)-1-n+i] != byte(i+1) {
			return nil, iv, fmt.Errorf("confidentiality pad byte %d is %#02x, want %#02x", i, out[len(out)-1-n+i], i+1)
		}
	}
	return out[:len(out)-1-n], iv, nil
}

// AESEncrypt builds an AES-CBC-128 confidentiality payload with the given IV.
func AESEncrypt(k2 []byte, iv [16]byte, plain []byte) []byte {
	n := (16 - (len(plain)+1)%16) % 16
	buf := append([]byte{}, plain...)
	for i := 0; i < n; i++ {
		buf = append(buf, byte(i+1))
	}
	buf = append(buf, byte(n))
	c, _ := aes.NewCipher(k2[:16])
	out := make([]byte, 16+len(buf))
	copy(out, iv[:])
	cipher.NewCBCEncrypter(c, iv[:]).CryptBlocks(out[16:], buf)
	return out
}

// AESEncryptRaw encrypts already-padded data (len multiple of 16) - used to
// craft payloads with arbitrary (invalid) pads.
func AESEncryptRaw(k2 []byte, iv [16]byte, padded []byte) []byte {
	c, _ := aes.NewCipher(k2[:16])
	out := make([]byte, 16+len(padded))
	copy(out, iv[:])
	cipher.NewCBCEncrypter(c, iv[:]).CryptBlocks(out[16:], padded)
	return out
}
