// vcheck is the driver: `vcheck <Cxx> <quick|thorough>` runs one property's
// check (sharded over worker processes), writes /verif/evidence/<id>.json and
// prints VIOLATION / KNOWN-FINDING lines; `vcheck replay <file>` re-executes a
// recorded case without the explorer.
package main

import (
	"context"
	"encoding/json"
	"fmt"
	"os"
	"os/exec"
	"path/filepath"
	"runtime"
	"runtime/debug"
	"strconv"
	"strings"
	"sync"
	"time"

	"verif/checks"
	"verif/env"
	"verif/rep"
)

func verifDir() string {
	if d := os.Getenv("VERIF_DIR"); d != "" {
		return d
	}
	return "/verif"
}

func main() {
	if len(os.Args) < 3 {
		fmt.Println("usage: vcheck <Cxx> <quick|thorough> | vcheck replay <file> | vcheck list")
		os.Exit(2)
	}
	if os.Args[1] == "replay" {
		os.Exit(replay(os.Args[2]))
	}
	id, tier := os.Args[1], os.Args[2]
	c := checks.Registry[id]
	if c == nil {
		fmt.Println("unknown check", id)
		os.Exit(2)
	}
	if tier != "quick" && tier != "thorough" {
		fmt.Println("tier must be quick or thorough")
		os.Exit(2)
	}
	seed := int64(1)
	if s := os.Getenv("VERIF_SEED"); s != "" {
		if v, err := strconv.ParseInt(s, 10, 64); err == nil {
			seed = v
		}
	}
	shard, n, out := -1, c.Shards, ""
	for i := 3; i < len(os.Args); i++ {
		switch os.Args[i] {
		case "--shard":
			parts := strings.Split(os.Args[i+1], "/")
			shard, _ = strconv.Atoi(parts[0])
			n, _ = strconv.Atoi(parts[1])
			i++
		case "--out":
			out = os.Args[i+1]
			i++
		}
	}
	if shard >= 0 {
		worker(c, tier, seed, shard, n, out)
		return
	}
	if v := os.Getenv("VERIF_SHARDS"); v != "" {
		if k, err := strconv.Atoi(v); err == nil && k > 0 && c.Shards > 1 {
			n = k
		}
	}
	os.Exit(parent(c, tier, seed, n))
}

func worker(c *checks.Check, tier string, seed int64, shard, n int, out string) {
	debug.SetMemoryLimit(3 << 30)
	r := rep.New(c.ID, tier, seed, shard, n)
	// monitor: a guarded library call that does not come back
	go func() {
		for {
			time.Sleep(500 * time.Millisecond)
			hung, kind, cas, note, site := checks.Hung()
			if !hung {
				continue
			}
			if kind == "" {
				kind, cas = "hang", map[string]string{"note": note, "site": site}
			}
			r.Cap("shard %d stopped at a library call that does not return", shard)
			r.Violate(c.ID+"/library-call-does-not-return/"+site, fmt.Sprintf("a library call has been running for %v of real time although every wait it may make is virtual or bounded: it loops without end (%s) @ %s", checks.HangLimit, note, site), kind, cas, nil)
			if err := r.WriteShard(out); err != nil {
				fmt.Fprintln(os.Stderr, "write shard:", err)
				os.Exit(3)
			}
			os.Exit(0)
		}
	}()
	func() {
		defer func() {
			if e := recover(); e != nil {
				st := string(debug.Stack())
				if ra, ok := e.(env.Runaway); ok {
					// the environment's transmission cap fired inside a call the check
					// did not guard: a retry loop of the library that does not end
					r.Cap("shard %d stopped at a retry loop that does not end", shard)
					r.Violate(c.ID+"/retry-loop-does-not-end", "the library kept transmitting although every request was answered: "+ra.What, "runaway", map[string]string{"stack": st}, nil)
					return
				}
				if site, ok := checks.LibraryPanic(st); ok {
					// a panic raised by the library through a call the check did not
					// guard: still the library's panic, reported as such (the shard's
					// remaining cases are not evaluated)
					r.Cap("shard %d stopped at a library panic", shard)
					r.Violate(c.ID+"/library-panic/"+site, fmt.Sprintf("the library panicked: %v @ %s", e, site), "panic", map[string]string{"stack": st}, nil)
					return
				}
				r.Infra("harness panic in shard %d: %v\n%s", shard, e, st)
			}
		}()
		c.Run(r)
	}()
	if err := r.WriteShard(out); err != nil {
		fmt.Fprintln(os.Stderr, "write shard:", err)
		os.Exit(3)
	}
}

func parent(c *checks.Check, tier string, seed int64, n int) int {
	start := time.Now()
	// scratch directories left behind by runs that were killed (older than two hours)
	if old, _ := filepath.Glob(filepath.Join(os.TempDir(), "vcheck-C*")); len(old) > 0 {
		for _, d := range old {
			if fi, err := os.Stat(d); err == nil && fi.IsDir() && time.Since(fi.ModTime()) > 2*time.Hour {
				os.RemoveAll(d)
			}
		}
	}
	dir, err := os.MkdirTemp("", "vcheck-"+c.ID+"-")
	if err != nil {
		fmt.Println("infrastructure error:", err)
		return 2
	}
	defer os.RemoveAll(dir)
	if n > runtime.NumCPU() {
		n = runtime.NumCPU()
	}
	var wg sync.WaitGroup
	errs := make([]string, n)
	for i := 0; i < n; i++ {
		wg.Add(1)
		go func(i int) {
			defer wg.Done()
			limit := 20 * time.Minute
			if tier == "thorough" {
				limit = 90 * time.Minute
			}
			ctx, cancel := context.WithTimeout(context.Background(), limit)
			defer cancel()
			cmd := exec.CommandContext(ctx, os.Args[0], c.ID, tier, "--shard", fmt.Sprintf("%d/%d", i, n), "--out", dir)
			cmd.Env = append(os.Environ(), "GOMAXPROCS="+gomaxprocs(n))
			outb, err := cmd.CombinedOutput()
			if ctx.Err() != nil {
				err = fmt.Errorf("worker exceeded its %v wall-clock limit and was killed: %v", limit, err)
			}
			if err != nil {
				tail := string(outb)
				if len(tail) > 6000 {
					tail = tail[:3000] + "\n...\n" + tail[len(tail)-3000:]
				}
				errs[i] = fmt.Sprintf("shard %d: %v\n%s", i, err, tail)
			}
		}(i)
	}
	wg.Wait()
	crashed := false
	for _, e := range errs {
		if e != "" {
			crashed = true
			fmt.Println("worker failure:", e)
		}
	}
	if crashed {
		// A worker dying (e.g. an unrecovered panic in the library on a path with
		// no recover) is information the check must turn into a violation itself
		// by isolating such calls; reaching here means the harness did not.
		fmt.Println("infrastructure error: a worker process died")
		return 2
	}
	m, err := rep.Merge(dir, n, c.ID, tier, seed)
	if err != nil {
		fmt.Println("infrastructure error:", err)
		return 2
	}
	return rep.Finish(m, verifDir(), time.Since(start), c.MinOutcomes)
}

func gomaxprocs(n int) string {
	if n >= runtime.NumCPU()/2 {
		return "2"
	}
	k := runtime.NumCPU() / n
	if k < 1 {
		k = 1
	}
	return strconv.Itoa(k)
}

func replay(path string) int {
	b, err := os.ReadFile(path)
	if err != nil {
		fmt.Println(err)
		return 2
	}
	var f struct {
		Property string          `json:"property"`
		Key      string          `json:"key"`
		Kind     string          `json:"kind"`
		Case     json.RawMessage `json:"case"`
	}
	if err := json.Unmarshal(b, &f); err != nil {
		fmt.Println(err)
		return 2
	}
	fn := checks.Replayers[f.Kind]
	if fn == nil {
		fmt.Printf("no replayer for kind %q (file %s)\n", f.Kind, filepath.Base(path))
		return 2
	}
	msg, bad := fn(f.Case)
	fmt.Println(msg)
	if bad {
		fmt.Printf("VIOLATION property=%s replay=%s\n", f.Property, path)
		return 1
	}
	fmt.Println("case no longer violates")
	return 0
}
