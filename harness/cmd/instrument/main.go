// instrument rewrites the current /repo sources so that every statement that
// mentions a package-level variable is preceded by vsched.Point(...), adds a
// per-package dump of those variables, and writes a `go build -overlay` file.
// /repo itself is not touched.
//
//	instrument <repo> <outdir> <vsched.go>
package main

import (
	"bytes"
	"encoding/json"
	"fmt"
	"go/ast"
	"go/format"
	"go/parser"
	"go/token"
	"os"
	"path/filepath"
	"sort"
	"strconv"
	"strings"
)

const modPath = "github.com/gebn/bmc"
const vschedPath = modPath + "/pkg/vsched"

var pkgDirs = []string{".", "pkg/ipmi", "pkg/dcmi", "pkg/layerexts", "pkg/iana", "internal/pkg/transport", "internal/pkg/bcd", "internal/pkg/complement"}

type pkgInfo struct {
	dir   string
	name  string
	files map[string]*ast.File
	vars  map[string]bool
	// skipDump: variables whose values are library objects with internal,
	// legitimately changing state (Prometheus collectors)
	skipDump map[string]bool
}

func main() {
	if len(os.Args) != 4 {
		fmt.Fprintln(os.Stderr, "usage: instrument <repo> <outdir> <vsched.go>")
		os.Exit(2)
	}
	repo, out, vsrc := os.Args[1], os.Args[2], os.Args[3]
	fset := token.NewFileSet()
	pkgs := map[string]*pkgInfo{} // import path -> info
	for _, d := range pkgDirs {
		dir := filepath.Join(repo, d)
		ents, err := os.ReadDir(dir)
		if err != nil {
			continue
		}
		pi := &pkgInfo{dir: d, files: map[string]*ast.File{}, vars: map[string]bool{}, skipDump: map[string]bool{}}
		for _, e := range ents {
			n := e.Name()
			if e.IsDir() || !strings.HasSuffix(n, ".go") || strings.HasSuffix(n, "_test.go") {
				continue
			}
			f, err := parser.ParseFile(fset, filepath.Join(dir, n), nil, parser.ParseComments)
			if err != nil {
				fmt.Fprintln(os.Stderr, "parse:", err)
				os.Exit(1)
			}
			pi.files[n] = f
			pi.name = f.Name.Name
			for _, decl := range f.Decls {
				gd, ok := decl.(*ast.GenDecl)
				if !ok || gd.Tok != token.VAR {
					continue
				}
				for _, sp := range gd.Specs {
					vs := sp.(*ast.ValueSpec)
					var rhs bytes.Buffer
					for _, v := range vs.Values {
						format.Node(&rhs, fset, v)
					}
					if vs.Type != nil {
						format.Node(&rhs, fset, vs.Type)
					}
					prom := strings.Contains(rhs.String(), "promauto.") || strings.Contains(rhs.String(), "prometheus.") || strings.Contains(rhs.String(), "WithLabelValues")
					for _, nm := range vs.Names {
						if nm.Name == "_" {
							continue
						}
						pi.vars[nm.Name] = true
						if prom {
							pi.skipDump[nm.Name] = true
						}
					}
				}
			}
		}
		if len(pi.files) == 0 {
			continue
		}
		ip := modPath
		if d != "." {
			ip = modPath + "/" + d
		}
		pkgs[ip] = pi
	}
	overlay := map[string]string{filepath.Join(repo, "pkg/vsched/vsched.go"): vsrc}
	totalPoints := 0
	var report []string
	for ip, pi := range pkgs {
		for fname, f := range pi.files {
			// import aliases of instrumented packages in this file
			alias := map[string]*pkgInfo{}
			for _, im := range f.Imports {
				p, _ := strconv.Unquote(im.Path.Value)
				if other, ok := pkgs[p]; ok {
					name := other.name
					if im.Name != nil {
						name = im.Name.Name
					}
					alias[name] = other
				}
			}
			n := 0
			mentions := func(node ast.Node) []string {
				seen := map[string]bool{}
				ast.Inspect(node, func(x ast.Node) bool {
					switch e := x.(type) {
					case *ast.FuncLit:
						return false // its body gets its own points
					case *ast.SelectorExpr:
						if id, ok := e.X.(*ast.Ident); ok {
							if other, ok := alias[id.Name]; ok && id.Obj == nil && other.vars[e.Sel.Name] {
								seen[id.Name+"."+e.Sel.Name] = true
							}
						}
					case *ast.Ident:
						// unresolved or package-scope identifiers naming a package-level var
						if pi.vars[e.Name] && (e.Obj == nil || e.Obj.Kind == ast.Var && isPkgLevel(f, pi, e)) {
							seen[e.Name] = true
						}
					}
					return true
				})
				var out []string
				for k := range seen {
					out = append(out, k)
				}
				sort.Strings(out)
				return out
			}
			var rewriteList func(list []ast.Stmt) []ast.Stmt
			var walk func(node ast.Node)
			rewriteList = func(list []ast.Stmt) []ast.Stmt {
				var out []ast.Stmt
				for _, st := range list {
					// the statement's own expressions, not nested blocks
					if ms := mentions(shallow(st)); len(ms) > 0 {
						loc := fmt.Sprintf("%s/%s:%d %s", pi.dir, fname, fset.Position(st.Pos()).Line, strings.Join(ms, ","))
						out = append(out, &ast.ExprStmt{X: &ast.CallExpr{
							Fun:  &ast.SelectorExpr{X: ast.NewIdent("vsched"), Sel: ast.NewIdent("Point")},
							Args: []ast.Expr{&ast.BasicLit{Kind: token.STRING, Value: strconv.Quote(loc)}},
						}})
						n++
					}
					walk(st)
					out = append(out, st)
				}
				return out
			}
			walk = func(node ast.Node) {
				ast.Inspect(node, func(x ast.Node) bool {
					switch b := x.(type) {
					case *ast.BlockStmt:
						b.List = rewriteList(b.List)
						return false
					case *ast.CaseClause:
						b.Body = rewriteList(b.Body)
						return false
					case *ast.CommClause:
						b.Body = rewriteList(b.Body)
						return false
					}
					return true
				})
			}
			for _, decl := range f.Decls {
				fd, ok := decl.(*ast.FuncDecl)
				if !ok || fd.Body == nil || fd.Name.Name == "init" {
					continue
				}
				fd.Body.List = rewriteList(fd.Body.List)
			}
			if n == 0 {
				continue
			}
			totalPoints += n
			addImport(f, vschedPath)
			var buf bytes.Buffer
			if err := format.Node(&buf, fset, f); err != nil {
				fmt.Fprintln(os.Stderr, "format:", fname, err)
				os.Exit(1)
			}
			dst := filepath.Join(out, pi.dir, fname)
			os.MkdirAll(filepath.Dir(dst), 0o755)
			os.WriteFile(dst, buf.Bytes(), 0o644)
			overlay[filepath.Join(repo, pi.dir, fname)] = dst
			report = append(report, fmt.Sprintf("%s/%s:%d", pi.dir, fname, n))
		}
		// dump file
		var names []string
		for v := range pi.vars {
			if !pi.skipDump[v] {
				names = append(names, v)
			}
		}
		sort.Strings(names)
		if len(names) > 0 {
			var b strings.Builder
			fmt.Fprintf(&b, "package %s\n\nimport (\n\t\"fmt\"\n\n\t\"%s\"\n)\n\nfunc init() {\n\tvsched.RegisterDump(%q, func() string {\n\t\treturn fmt.Sprintf(%q", pi.name, vschedPath, ip, strings.Repeat("%#v|", len(names)))
			for _, nme := range names {
				fmt.Fprintf(&b, ", %s", nme)
			}
			b.WriteString(")\n\t})\n}\n")
			dst := filepath.Join(out, pi.dir, "zz_verif_dump.go")
			os.MkdirAll(filepath.Dir(dst), 0o755)
			os.WriteFile(dst, []byte(b.String()), 0o644)
			overlay[filepath.Join(repo, pi.dir, "zz_verif_dump.go")] = dst
		}
	}
	ob, _ := json.MarshalIndent(map[string]any{"Replace": overlay}, "", " ")
	os.WriteFile(filepath.Join(out, "overlay.json"), ob, 0o644)
	sort.Strings(report)
	vars := 0
	for _, pi := range pkgs {
		vars += len(pi.vars)
	}
	info, _ := json.Marshal(map[string]any{"points": totalPoints, "files": report, "package_level_vars": vars, "packages": len(pkgs)})
	os.WriteFile(filepath.Join(out, "instrument.json"), info, 0o644)
	fmt.Printf("instrumented %d scheduling points in %d files (%d package-level variables, %d packages)\n", totalPoints, len(report), vars, len(pkgs))
}

// isPkgLevel reports whether identifier e resolves to a package-level
// declaration (its object's declaration is a top-level ValueSpec).
func isPkgLevel(f *ast.File, pi *pkgInfo, e *ast.Ident) bool {
	if e.Obj == nil {
		return true
	}
	vs, ok := e.Obj.Decl.(*ast.ValueSpec)
	if !ok {
		return false
	}
	for _, file := range pi.files {
		for _, d := range file.Decls {
			if gd, ok := d.(*ast.GenDecl); ok {
				for _, sp := range gd.Specs {
					if sp == ast.Spec(vs) {
						return true
					}
				}
			}
		}
	}
	return false
}

// shallow returns the parts of a statement that are evaluated as part of the
// statement itself, leaving out nested statement lists (they get their own points).
func shallow(st ast.Stmt) ast.Node {
	switch s := st.(type) {
	case *ast.IfStmt:
		return &ast.BlockStmt{List: []ast.Stmt{nz(s.Init), &ast.ExprStmt{X: s.Cond}}}
	case *ast.ForStmt:
		var c ast.Expr = ast.NewIdent("_")
		if s.Cond != nil {
			c = s.Cond
		}
		return &ast.BlockStmt{List: []ast.Stmt{nz(s.Init), &ast.ExprStmt{X: c}, nz(s.Post)}}
	case *ast.RangeStmt:
		return &ast.ExprStmt{X: s.X}
	case *ast.SwitchStmt:
		var t ast.Expr = ast.NewIdent("_")
		if s.Tag != nil {
			t = s.Tag
		}
		return &ast.BlockStmt{List: []ast.Stmt{nz(s.Init), &ast.ExprStmt{X: t}}}
	case *ast.TypeSwitchStmt:
		return &ast.BlockStmt{List: []ast.Stmt{nz(s.Init), nz(s.Assign)}}
	case *ast.SelectStmt, *ast.BlockStmt:
		return &ast.EmptyStmt{}
	case *ast.LabeledStmt:
		return shallow(s.Stmt)
	}
	// simple statements; function literal bodies are skipped by mentions()
	// and walked separately
	return st
}

func nz(s ast.Stmt) ast.Stmt {
	if s == nil {
		return &ast.EmptyStmt{}
	}
	return s
}

func addImport(f *ast.File, path string) {
	for _, im := range f.Imports {
		if p, _ := strconv.Unquote(im.Path.Value); p == path {
			return
		}
	}
	spec := &ast.ImportSpec{Path: &ast.BasicLit{Kind: token.STRING, Value: strconv.Quote(path)}}
	for _, d := range f.Decls {
		if gd, ok := d.(*ast.GenDecl); ok && gd.Tok == token.IMPORT {
			gd.Specs = append(gd.Specs, spec)
			if !gd.Lparen.IsValid() {
				gd.Lparen = gd.Pos()
			}
			f.Imports = append(f.Imports, spec)
			return
		}
	}
	gd := &ast.GenDecl{Tok: token.IMPORT, Specs: []ast.Spec{spec}}
	f.Decls = append([]ast.Decl{gd}, f.Decls...)
	f.Imports = append(f.Imports, spec)
}
