// racepass is the free-running companion of C19: N goroutines, each with its
// own UDP-loopback reference BMC and its own DialV2 connection, run workloads
// concurrently under the Go race detector (build with -race). A cooperative
// scheduler's hand-offs are happens-before edges that blind the detector, so
// this pass runs the same kind of bodies unscheduled.
package main

import (
	"fmt"
	"os"
	"strconv"

	"verif/checks"
)

func main() {
	n, iters := 4, 20
	if len(os.Args) > 2 {
		n, _ = strconv.Atoi(os.Args[1])
		iters, _ = strconv.Atoi(os.Args[2])
	}
	if err := checks.RacePass(n, iters); err != nil {
		fmt.Println("MISMATCH:", err)
		os.Exit(3)
	}
	fmt.Printf("racepass ok goroutines=%d iterations=%d\n", n, iters)
}
