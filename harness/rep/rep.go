// Package rep collects what a check covered (evidence), its violations and the
// known-findings classification, and merges the reports of shard processes.
package rep

import (
	"bufio"
	"crypto/sha256"
	"encoding/binary"
	"encoding/hex"
	"encoding/json"
	"fmt"
	"hash/fnv"
	"os"
	"path/filepath"
	"sort"
	"strings"
	"sync"
	"time"
)

const (
	maxSamples    = 8
	maxViolations = 40
	maxSet        = 6_000_000 // per shard; beyond this a set only counts (noted)
)

// Violation is one failing case. Key identifies the failure (oracle clause +
// minimal pattern), not the property, so known findings can be matched.
type Violation struct {
	Key   string          `json:"key"`
	Msg   string          `json:"msg"`
	Kind  string          `json:"kind"` // replay kind understood by `vcheck replay`
	Case  json.RawMessage `json:"case"`
	Count int64           `json:"count"` // how many explored cases hit this key
}

// R is a report under construction. All methods are safe for concurrent use.
type R struct {
	mu sync.Mutex

	Prop   string `json:"prop"`
	Tier   string `json:"tier"`
	Seed   int64  `json:"seed"`
	Shard  int    `json:"shard"`
	NShard int    `json:"nshard"`

	Evaluations int64            `json:"evaluations"`
	Traces      int64            `json:"traces"`
	Outcomes    map[string]int64 `json:"outcomes"`
	Counters    map[string]int64 `json:"counters"`
	Samples     []any            `json:"samples"`
	Violations  []*Violation     `json:"violations"`
	Notes       []string         `json:"notes"`
	Assumptions []string         `json:"assumptions"`
	Caps        []string         `json:"caps"` // non-empty => not exhaustive
	Rule        string           `json:"rule"`
	Bounds      map[string]any   `json:"bounds"`
	InfraErrors []string         `json:"infra_errors"`

	distinct    map[uint64]struct{}
	states      map[uint64]struct{}
	transitions map[uint64]struct{}
	overflowed  map[string]int64
	vioIndex    map[string]*Violation
	start       time.Time
}

func New(prop, tier string, seed int64, shard, n int) *R {
	return &R{Prop: prop, Tier: tier, Seed: seed, Shard: shard, NShard: n,
		Outcomes: map[string]int64{}, Counters: map[string]int64{}, Bounds: map[string]any{},
		distinct: map[uint64]struct{}{}, states: map[uint64]struct{}{}, transitions: map[uint64]struct{}{},
		overflowed: map[string]int64{}, vioIndex: map[string]*Violation{}, start: time.Now()}
}

// Mine reports whether case number idx belongs to this shard.
func (r *R) Mine(idx int64) bool {
	if r.NShard <= 1 {
		return true
	}
	return int(idx%int64(r.NShard)) == r.Shard
}

func H(parts ...any) uint64 {
	h := fnv.New64a()
	for _, p := range parts {
		switch v := p.(type) {
		case []byte:
			var l [4]byte
			binary.LittleEndian.PutUint32(l[:], uint32(len(v)))
			h.Write(l[:])
			h.Write(v)
		case string:
			var l [4]byte
			binary.LittleEndian.PutUint32(l[:], uint32(len(v)))
			h.Write(l[:])
			h.Write([]byte(v))
		case uint64:
			var l [8]byte
			binary.LittleEndian.PutUint64(l[:], v)
			h.Write(l[:])
		case int:
			var l [8]byte
			binary.LittleEndian.PutUint64(l[:], uint64(v))
			h.Write(l[:])
		default:
			fmt.Fprintf(h, "%v|", v)
		}
	}
	return h.Sum64()
}

func (r *R) addSet(name string, m map[uint64]struct{}, k uint64) {
	if len(m) >= maxSet {
		if _, ok := m[k]; !ok {
			r.overflowed[name]++
		}
		return
	}
	m[k] = struct{}{}
}

// Eval records one explored case; key identifies the case (must be unique per
// distinct case); nontrivial says whether it counts as non-trivial by the rule.
func (r *R) Eval(key uint64, nontrivial bool) {
	r.mu.Lock()
	r.Evaluations++
	if nontrivial {
		r.addSet("distinct", r.distinct, key)
	}
	r.mu.Unlock()
}

// EvalN records n evaluations that are accounted for by one distinct key.
func (r *R) EvalN(n int64, key uint64, nontrivial bool) {
	r.mu.Lock()
	r.Evaluations += n
	if nontrivial {
		r.addSet("distinct", r.distinct, key)
	}
	r.mu.Unlock()
}

func (r *R) State(k uint64) {
	r.mu.Lock()
	r.addSet("states", r.states, k)
	r.mu.Unlock()
}

func (r *R) Transition(k uint64) {
	r.mu.Lock()
	r.addSet("transitions", r.transitions, k)
	r.mu.Unlock()
}

// Trace records one complete execution of the real implementation.
func (r *R) Trace() {
	r.mu.Lock()
	r.Traces++
	r.mu.Unlock()
}

func (r *R) Outcome(o string) {
	r.mu.Lock()
	r.Outcomes[o]++
	r.mu.Unlock()
}

func (r *R) Count(name string, n int64) {
	r.mu.Lock()
	r.Counters[name] += n
	r.mu.Unlock()
}

// WantSample reports whether this shard still has room for samples.
func (r *R) WantSample() bool {
	r.mu.Lock()
	defer r.mu.Unlock()
	return len(r.Samples) < 2
}

func (r *R) Sample(s any) {
	r.mu.Lock()
	if len(r.Samples) < maxSamples {
		r.Samples = append(r.Samples, s)
	}
	r.mu.Unlock()
}

func (r *R) Note(format string, a ...any) {
	r.mu.Lock()
	s := fmt.Sprintf(format, a...)
	for _, n := range r.Notes {
		if n == s {
			r.mu.Unlock()
			return
		}
	}
	r.Notes = append(r.Notes, s)
	r.mu.Unlock()
}

func (r *R) Assume(s string) {
	r.mu.Lock()
	for _, n := range r.Assumptions {
		if n == s {
			r.mu.Unlock()
			return
		}
	}
	r.Assumptions = append(r.Assumptions, s)
	r.mu.Unlock()
}

func (r *R) Cap(format string, a ...any) {
	r.mu.Lock()
	s := fmt.Sprintf(format, a...)
	for _, n := range r.Caps {
		if n == s {
			r.mu.Unlock()
			return
		}
	}
	r.Caps = append(r.Caps, s)
	r.mu.Unlock()
}

func (r *R) Infra(format string, a ...any) {
	r.mu.Lock()
	if len(r.InfraErrors) < 20 {
		r.InfraErrors = append(r.InfraErrors, fmt.Sprintf(format, a...))
	}
	r.mu.Unlock()
}

func (r *R) SetRule(s string) { r.mu.Lock(); r.Rule = s; r.mu.Unlock() }

func (r *R) Bound(k string, v any) { r.mu.Lock(); r.Bounds[k] = v; r.mu.Unlock() }

// Violate records a violation. kind/caseV make it replayable. confirm, if not
// nil, re-executes the case; it is called 4 more times and all must agree that
// the violation reproduces, else the run is an infrastructure error.
func (r *R) Violate(key, msg, kind string, caseV any, confirm func() bool) {
	r.mu.Lock()
	if v, ok := r.vioIndex[key]; ok {
		v.Count++
		r.mu.Unlock()
		return
	}
	r.mu.Unlock()
	if confirm != nil {
		for i := 0; i < 4; i++ {
			if !confirm() {
				r.Infra("violation %q did not reproduce on re-execution %d: nondeterminism in the harness", key, i+1)
				return
			}
		}
	}
	raw, err := json.Marshal(caseV)
	if err != nil {
		raw, _ = json.Marshal(fmt.Sprintf("%v", caseV))
	}
	r.mu.Lock()
	defer r.mu.Unlock()
	if v, ok := r.vioIndex[key]; ok {
		v.Count++
		return
	}
	v := &Violation{Key: key, Msg: msg, Kind: kind, Case: raw, Count: 1}
	r.vioIndex[key] = v
	if len(r.Violations) < maxViolations {
		r.Violations = append(r.Violations, v)
	} else {
		r.Counters["violations_dropped_over_cap"]++
	}
}

// ---- shard output and merging ----

type shardFile struct {
	R          *R               `json:"r"`
	Overflowed map[string]int64 `json:"overflowed"`
	NDistinct  int              `json:"ndistinct"`
	NStates    int              `json:"nstates"`
	NTrans     int              `json:"ntrans"`
	WallS      float64          `json:"wall_s"`
}

func writeSet(w *bufio.Writer, m map[uint64]struct{}) {
	var b [8]byte
	for k := range m {
		binary.LittleEndian.PutUint64(b[:], k)
		w.Write(b[:])
	}
}

// WriteShard stores this shard's report under dir.
func (r *R) WriteShard(dir string) error {
	r.mu.Lock()
	defer r.mu.Unlock()
	sf := shardFile{R: r, Overflowed: r.overflowed, NDistinct: len(r.distinct), NStates: len(r.states),
		NTrans: len(r.transitions), WallS: time.Since(r.start).Seconds()}
	b, err := json.Marshal(sf)
	if err != nil {
		return err
	}
	base := filepath.Join(dir, fmt.Sprintf("shard-%d", r.Shard))
	if err := os.WriteFile(base+".json", b, 0o644); err != nil {
		return err
	}
	f, err := os.Create(base + ".sets")
	if err != nil {
		return err
	}
	w := bufio.NewWriterSize(f, 1<<20)
	writeSet(w, r.distinct)
	writeSet(w, r.states)
	writeSet(w, r.transitions)
	if err := w.Flush(); err != nil {
		return err
	}
	return f.Close()
}

// Merged is the union of all shard reports.
type Merged struct {
	R           *R
	Distinct    int64
	States      int64
	Transitions int64
	ShardWall   []float64
}

func readSets(path string, nd, ns, nt int, d, s, t map[uint64]struct{}) error {
	b, err := os.ReadFile(path)
	if err != nil {
		return err
	}
	if len(b) != 8*(nd+ns+nt) {
		return fmt.Errorf("%s: size %d, want %d", path, len(b), 8*(nd+ns+nt))
	}
	off := 0
	for i := 0; i < nd; i++ {
		d[binary.LittleEndian.Uint64(b[off:])] = struct{}{}
		off += 8
	}
	for i := 0; i < ns; i++ {
		s[binary.LittleEndian.Uint64(b[off:])] = struct{}{}
		off += 8
	}
	for i := 0; i < nt; i++ {
		t[binary.LittleEndian.Uint64(b[off:])] = struct{}{}
		off += 8
	}
	return nil
}

// Merge reads n shard files from dir.
func Merge(dir string, n int, prop, tier string, seed int64) (*Merged, error) {
	m := &Merged{R: New(prop, tier, seed, 0, n)}
	d, s, t := map[uint64]struct{}{}, map[uint64]struct{}{}, map[uint64]struct{}{}
	over := map[string]int64{}
	for i := 0; i < n; i++ {
		base := filepath.Join(dir, fmt.Sprintf("shard-%d", i))
		b, err := os.ReadFile(base + ".json")
		if err != nil {
			return nil, fmt.Errorf("shard %d produced no report (crashed or was killed): %v", i, err)
		}
		var sf shardFile
		if err := json.Unmarshal(b, &sf); err != nil {
			return nil, err
		}
		if err := readSets(base+".sets", sf.NDistinct, sf.NStates, sf.NTrans, d, s, t); err != nil {
			return nil, err
		}
		r := sf.R
		m.ShardWall = append(m.ShardWall, sf.WallS)
		m.R.Evaluations += r.Evaluations
		m.R.Traces += r.Traces
		for k, v := range r.Outcomes {
			m.R.Outcomes[k] += v
		}
		for k, v := range r.Counters {
			m.R.Counters[k] += v
		}
		for k, v := range sf.Overflowed {
			over[k] += v
		}
		for _, x := range r.Samples {
			if len(m.R.Samples) < maxSamples {
				m.R.Samples = append(m.R.Samples, x)
			}
		}
		for _, v := range r.Violations {
			if e, ok := m.R.vioIndex[v.Key]; ok {
				e.Count += v.Count
				continue
			}
			m.R.vioIndex[v.Key] = v
			m.R.Violations = append(m.R.Violations, v)
		}
		for _, x := range r.Notes {
			m.R.Note("%s", x)
		}
		for _, x := range r.Assumptions {
			m.R.Assume(x)
		}
		for _, x := range r.Caps {
			m.R.Cap("%s", x)
		}
		for _, x := range r.InfraErrors {
			m.R.Infra("%s", x)
		}
		if r.Rule != "" {
			m.R.Rule = r.Rule
		}
		for k, v := range r.Bounds {
			m.R.Bounds[k] = v
		}
	}
	m.Distinct = int64(len(d)) + over["distinct"]
	m.States = int64(len(s)) + over["states"]
	m.Transitions = int64(len(t)) + over["transitions"]
	for k, v := range over {
		if v > 0 {
			m.R.Note("set %q exceeded the in-memory cap in some shard; %d further members were counted without de-duplication across shards", k, v)
		}
	}
	sort.Slice(m.R.Violations, func(i, j int) bool { return m.R.Violations[i].Key < m.R.Violations[j].Key })
	return m, nil
}

// ---- known findings ----

type Known struct {
	Status   string `json:"status"` // "finding" or "fixed"
	Property string `json:"property"`
	Key      string `json:"key"`
	Commit   string `json:"commit,omitempty"`
	What     string `json:"what"`
}

func LoadKnown(path string) ([]Known, error) {
	f, err := os.Open(path)
	if err != nil {
		if os.IsNotExist(err) {
			return nil, nil
		}
		return nil, err
	}
	defer f.Close()
	var out []Known
	sc := bufio.NewScanner(f)
	sc.Buffer(make([]byte, 1<<20), 1<<20)
	for sc.Scan() {
		line := strings.TrimSpace(sc.Text())
		if line == "" || strings.HasPrefix(line, "#") {
			continue
		}
		var k Known
		if err := json.Unmarshal([]byte(line), &k); err != nil {
			return nil, fmt.Errorf("known_findings: %v", err)
		}
		out = append(out, k)
	}
	return out, sc.Err()
}

// ---- evidence + exit ----

type Evidence struct {
	PropertyID  string         `json:"property_id"`
	Tier        string         `json:"tier"`
	Seed        int64          `json:"seed"`
	Level       string         `json:"level"`
	Coverage    map[string]any `json:"coverage"`
	Assumptions []string       `json:"assumptions"`
	WallS       float64        `json:"wall_s"`
	Violations  int            `json:"violations"`
}

// Finish writes evidence and replay files, prints the verdict lines and
// returns the process exit code.
func Finish(m *Merged, verifDir string, wall time.Duration, minOutcomes int) int {
	r := m.R
	known, err := LoadKnown(filepath.Join(verifDir, "known_findings.jsonl"))
	if err != nil {
		fmt.Println("infrastructure error:", err)
		return 2
	}
	isKnown := func(key string) *Known {
		for i := range known {
			k := &known[i]
			if k.Status == "finding" && k.Property == r.Prop && k.Key == key {
				return k
			}
		}
		return nil
	}
	var newV, knownV []*Violation
	for _, v := range r.Violations {
		if isKnown(v.Key) != nil {
			knownV = append(knownV, v)
		} else {
			newV = append(newV, v)
		}
	}
	exhaustive := len(r.Caps) == 0 && len(r.InfraErrors) == 0
	samples := r.Samples
	if len(samples) == 0 {
		samples = []any{"(no sample recorded)"}
	}
	cov := map[string]any{
		"evaluations":                   r.Evaluations,
		"distinct_nontrivial":           m.Distinct,
		"rule":                          r.Rule,
		"samples":                       samples,
		"states":                        m.States,
		"transitions":                   m.Transitions,
		"traces_validated_against_impl": r.Traces,
		"exhaustive":                    exhaustive,
		"distinct_outcomes":             len(r.Outcomes),
		"outcomes":                      r.Outcomes,
		"counters":                      r.Counters,
		"bounds":                        r.Bounds,
		"caps_hit":                      r.Caps,
		"notes":                         r.Notes,
		"shards":                        r.NShard,
		"known_findings_reproduced":     keys(knownV),
		"new_violation_keys":            keys(newV),
	}
	if m.States == 0 {
		delete(cov, "states")
		delete(cov, "transitions")
	}
	ev := Evidence{PropertyID: r.Prop, Tier: r.Tier, Seed: r.Seed, Level: "model_checking", Coverage: cov,
		Assumptions: r.Assumptions, WallS: wall.Seconds(), Violations: len(newV)}
	if ev.Assumptions == nil {
		ev.Assumptions = []string{}
	}
	os.MkdirAll(filepath.Join(verifDir, "evidence"), 0o755)
	b, _ := json.MarshalIndent(ev, "", " ")
	if err := os.WriteFile(filepath.Join(verifDir, "evidence", r.Prop+".json"), append(b, '\n'), 0o644); err != nil {
		fmt.Println("infrastructure error:", err)
		return 2
	}
	fmt.Printf("%s %s: evaluations=%d distinct=%d states=%d transitions=%d traces=%d outcomes=%d exhaustive=%v wall=%.1fs\n",
		r.Prop, r.Tier, r.Evaluations, m.Distinct, m.States, m.Transitions, r.Traces, len(r.Outcomes), exhaustive, wall.Seconds())
	for _, c := range r.Caps {
		fmt.Println("cap:", c)
	}
	if len(r.InfraErrors) > 0 {
		for _, e := range r.InfraErrors {
			fmt.Println("infrastructure error:", e)
		}
		// an infrastructure error alone makes the run worthless (exit 2); next to
		// violations that were reproduced it must not hide them
		if len(newV) == 0 {
			return 2
		}
	}
	// the vacuity guard protects a silent pass; a run that found a violation
	// (possibly cutting shards short) has something to say anyway
	if len(r.Outcomes) < minOutcomes && len(newV) == 0 {
		fmt.Printf("infrastructure error: vacuity guard: only %d distinct outcomes observed, need >= %d: %v\n", len(r.Outcomes), minOutcomes, r.Outcomes)
		return 2
	}
	for _, v := range knownV {
		fmt.Printf("KNOWN-FINDING: property=%s %s (%s; %d cases)\n", r.Prop, v.Key, isKnown(v.Key).What, v.Count)
	}
	if len(newV) == 0 {
		return 0
	}
	os.MkdirAll(filepath.Join(verifDir, "replays"), 0o755)
	for _, v := range newV {
		sum := sha256.Sum256([]byte(v.Key))
		p := filepath.Join(verifDir, "replays", fmt.Sprintf("%s-%s.json", r.Prop, hex.EncodeToString(sum[:6])))
		rb, _ := json.MarshalIndent(map[string]any{"property": r.Prop, "key": v.Key, "kind": v.Kind, "msg": v.Msg, "case": v.Case, "cases_hitting_key": v.Count}, "", " ")
		os.WriteFile(p, append(rb, '\n'), 0o644)
		fmt.Printf("VIOLATION property=%s replay=%s\n", r.Prop, p)
		fmt.Printf("  key=%s\n  %s\n", v.Key, v.Msg)
	}
	return 1
}

func keys(vs []*Violation) []string {
	out := []string{}
	for _, v := range vs {
		out = append(out, v.Key)
	}
	return out
}
