package env

import (
	"net"
	"sync"
)

// UDP front: the same environment (reference BMC, answer menus, chooser)
// behind a real UDP socket on loopback, so the library's own transport
// (internal/pkg/transport: write deadline, read deadline, receive buffer) is
// part of the execution. It is used to replay traces explored over the
// in-memory model and compare what the BMC received and what the caller got.
//
// Correspondence with the in-memory socket model: datagrams the model appends
// to the queue are written to the socket at once (the kernel buffer is the
// queue; loopback keeps their order); datagrams that "arrive after the attempt
// timed out" are written immediately before the next request is processed -
// the library only sends again after its read deadline passed, so this is
// exactly the model's order; a lost request or reply is simply not answered
// and costs the library its real per-attempt timeout.
type UDPFront struct {
	t    *Transport
	conn *net.UDPConn
	mu   sync.Mutex
	late []Datagram
	wg   sync.WaitGroup
	// MaxAttempts: beyond this many datagrams within one operation nothing is
	// answered any more and OnRunaway is called (0: no cap).
	MaxAttempts int
	OnRunaway   func()
	// Received counts every datagram read from the socket.
	Received int
	// Panic is the first panic raised by the environment while answering.
	Panic any
}

// ListenUDP starts serving t on a loopback UDP socket.
func (t *Transport) ListenUDP() (*UDPFront, error) {
	conn, err := net.ListenUDP("udp", &net.UDPAddr{IP: net.IPv4(127, 0, 0, 1)})
	if err != nil {
		return nil, err
	}
	f := &UDPFront{t: t, conn: conn}
	f.wg.Add(1)
	go f.serve()
	return f, nil
}

// Seen returns how many datagrams the front has read so far.
func (f *UDPFront) Seen() int {
	f.mu.Lock()
	defer f.mu.Unlock()
	return f.Received
}

func (f *UDPFront) Addr() string { return f.conn.LocalAddr().String() }

func (f *UDPFront) Close() { f.conn.Close(); f.wg.Wait() }

// Locked runs g while no request is being processed (for harness bookkeeping
// such as BeginOp).
func (f *UDPFront) Locked(g func()) {
	f.mu.Lock()
	defer f.mu.Unlock()
	g()
}

func (f *UDPFront) serve() {
	defer f.wg.Done()
	buf := make([]byte, 4096)
	for {
		n, from, err := f.conn.ReadFromUDP(buf)
		if err != nil {
			return
		}
		req := append([]byte{}, buf[:n]...)
		f.mu.Lock()
		f.Received++
		t := f.t
		for _, d := range f.late {
			f.conn.WriteToUDP(d.B, from)
		}
		f.late = nil
		ex := &Exchange{Req: req, Op: t.Op, Attempt: t.Attempt}
		t.Attempt++
		if f.MaxAttempts > 0 && t.Attempt > f.MaxAttempts {
			f.mu.Unlock()
			if f.OnRunaway != nil {
				f.OnRunaway()
			}
			continue
		}
		t.Log = append(t.Log, ex)
		var panicked any
		func() {
			defer func() { panicked = recover() }()
			f.late = t.react(req, ex)
		}()
		out := t.Queue
		t.Queue = nil
		f.mu.Unlock()
		if panicked != nil {
			ex.Answer = "environment-panic"
			f.mu.Lock()
			if f.Panic == nil {
				f.Panic = panicked
			}
			f.mu.Unlock()
			continue
		}
		for _, d := range out {
			f.conn.WriteToUDP(d.B, from)
		}
	}
}
