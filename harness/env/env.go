// Package env owns the library's sources of nondeterminism: the transport (an
// in-memory UDP socket model in front of the reference BMC), crypto/rand, the
// back-off sleeps (through the shim's seam) and the caller's context; and it
// contains the deviation-bounded explorer that enumerates the environment's
// answers.
package env

import (
	"context"
	"crypto/rand"
	"crypto/sha256"
	"encoding/binary"
	"errors"
	"fmt"
	"net"
	"time"

	"verif/ref"
	"verif/rep"
)

// ---- choice points -------------------------------------------------------

// Point is one place where the environment chose an answer.
type Point struct {
	Kind  string
	Menu  []string
	State uint64
}

// Chooser replays a prefix of choices and then takes choice 0.
type Chooser struct {
	Prefix  []int
	Points  []Point
	Choices []int
	Err     error // divergence while replaying the prefix: hard error
}

func (c *Chooser) Choose(kind string, menu []string, state uint64) int {
	i := len(c.Points)
	c.Points = append(c.Points, Point{Kind: kind, Menu: menu, State: state})
	ch := 0
	if i < len(c.Prefix) {
		ch = c.Prefix[i]
		if ch < 0 || ch >= len(menu) {
			if c.Err == nil {
				c.Err = fmt.Errorf("replay divergence at point %d (%s): choice %d outside menu of %d", i, kind, ch, len(menu))
			}
			ch = 0
		}
	}
	c.Choices = append(c.Choices, ch)
	return ch
}

// Deviations counts the non-default choices.
func Deviations(ch []int) int {
	n := 0
	for _, c := range ch {
		if c != 0 {
			n++
		}
	}
	return n
}

// Explorer enumerates all executions of Run with at most Bound deviations.
type Explorer struct {
	R     *rep.R
	Bound int
	// Scenario identifies the scenario in state hashes and replay files.
	Scenario string
	// Run executes the scenario on the real code under ch and returns an
	// observation; it must be deterministic given the choices.
	Run func(ch *Chooser) any
	// Check is the oracle for one execution.
	Check func(ch *Chooser, obs any)
	// Idx is the running subtree counter used for sharding (shared across
	// scenarios of one check so shards balance).
	Idx *int64
	// Filter, if set, prunes alternatives: return false to skip alt at point i.
	Filter func(x *Chooser, i, alt int) bool
	Execs  int64
	// Stop, if it returns true, ends the exploration before the next execution
	// (used when further executions could only repeat an already reported
	// finding at a high real-time cost); the run is then not exhaustive.
	Stop func() bool
}

func (e *Explorer) exec(prefix []int) (*Chooser, any) {
	ch := &Chooser{Prefix: prefix}
	obs := e.Run(ch)
	e.Execs++
	if ch.Err != nil {
		e.R.Infra("%s: %v (prefix %v)", e.Scenario, ch.Err, prefix)
	}
	if len(ch.Points) < len(prefix) {
		e.R.Infra("%s: replay divergence: execution made %d choices, prefix has %d", e.Scenario, len(ch.Points), len(prefix))
	}
	return ch, obs
}

func (e *Explorer) record(ch *Chooser, obs any) {
	e.R.Trace()
	e.R.Eval(rep.H(e.Scenario, fmt.Sprint(ch.Choices)), true)
	prev := rep.H(e.Scenario, "init")
	for i, p := range ch.Points {
		st := rep.H(e.Scenario, i, p.Kind, p.State)
		e.R.State(st)
		e.R.Transition(rep.H(prev, st, ch.Choices[i]))
		prev = rep.H(st, ch.Choices[i])
	}
	e.Check(ch, obs)
}

// Explore runs the default execution and every execution within the bound.
// The default execution is attributed to the shard that owns index *Idx.
func (e *Explorer) Explore() {
	if e.Stop != nil && e.Stop() {
		return
	}
	*e.Idx++
	x, obs := e.exec(nil)
	if e.R.Mine(*e.Idx) {
		e.record(x, obs)
	}
	e.children(x, 0, true)
}

func (e *Explorer) children(x *Chooser, from int, top bool) {
	base := Deviations(x.Choices[:from])
	for i := from; i < len(x.Points); i++ {
		dev := base + Deviations(x.Choices[from:i])
		if dev+1 > e.Bound {
			break
		}
		for alt := 1; alt < len(x.Points[i].Menu); alt++ {
			if e.Stop != nil && e.Stop() {
				return
			}
			if e.Filter != nil && !e.Filter(x, i, alt) {
				continue
			}
			if top {
				*e.Idx++
				if !e.R.Mine(*e.Idx) {
					continue
				}
			}
			prefix := append(append([]int{}, x.Choices[:i]...), alt)
			y, obs := e.exec(prefix)
			e.record(y, obs)
			if dev+2 <= e.Bound {
				e.children(y, i+1, false)
			}
		}
	}
}

// ---- randomness ------------------------------------------------------------

// CounterReader is a deterministic crypto/rand.Reader: every Read returns
// fresh bytes of a hash-counter stream, so two reads never coincide.
type CounterReader struct {
	Seed uint64
	ctr  uint64
	buf  []byte
}

func (c *CounterReader) Read(p []byte) (int, error) {
	for i := range p {
		if len(c.buf) == 0 {
			var in [16]byte
			binary.LittleEndian.PutUint64(in[:], c.Seed)
			binary.LittleEndian.PutUint64(in[8:], c.ctr)
			c.ctr++
			h := sha256.Sum256(in[:])
			c.buf = h[:]
		}
		p[i] = c.buf[0]
		c.buf = c.buf[1:]
	}
	return len(p), nil
}

// InstallRand replaces crypto/rand.Reader (process-global) for one execution.
func InstallRand(seed uint64) { rand.Reader = &CounterReader{Seed: seed} }

// ---- virtual clock ----------------------------------------------------------

// Clock is virtual time charged by lost replies and back-off sleeps.
type Clock struct {
	Now      time.Duration
	Deadline time.Duration // 0 = none
	Cancel   context.CancelFunc
	Expired  bool
	// AfterExpiry counts seam calls that started a wait after expiry.
	SleepsAfterExpiry int
	SendsAfterExpiry  int
	// UnboundSleepsCrossing counts back-off sleeps during which the deadline
	// fell although the sleep's context is not derived from the caller's: the
	// real sleep would run to its end, whatever the deadline.
	UnboundSleepsCrossing int
	Sleeps                []time.Duration
}

// Charge advances time by d, expiring the context if the deadline is crossed.
// It returns true if the context expired during (or before) this wait.
func (c *Clock) Charge(d time.Duration) bool {
	if c.Expired {
		return true
	}
	if c.Deadline > 0 && c.Now+d >= c.Deadline {
		c.Now = c.Deadline
		c.Expire()
		return true
	}
	c.Now += d
	return false
}

// Epoch is the wall-clock instant virtual time 0 stands for.
var Epoch = time.Date(2026, 1, 1, 0, 0, 0, 0, time.UTC)

// Time returns the virtual wall-clock time.
func (c *Clock) Time() time.Time { return Epoch.Add(c.Now) }

func (c *Clock) Expire() {
	if !c.Expired {
		c.Expired = true
		if c.Cancel != nil {
			c.Cancel()
		}
	}
}

// ---- transport ---------------------------------------------------------------

// Runaway is the panic value the seams raise to get control back from a
// library loop that keeps going after the context expired (it cannot be
// interrupted any other way); the harness recovers it and reports it.
type Runaway struct{ What string }

// ErrTimeout is what Send returns when nothing arrives within the attempt.
var ErrTimeout = errors.New("verif transport: i/o timeout (no datagram arrived within the per-attempt deadline)")

// Exchange is the record of one Send.
type Exchange struct {
	Req         []byte
	Rx          *ref.Rx // nil if the request never reached the BMC
	Answer      string
	Returned    []byte // datagram handed to the library (nil: timeout)
	ReturnedTag string // logical identity of the datagram consumed
	Err         error
	Op          int
	Attempt     int
	CtxDone     bool // Send was entered with an expired context
	fail        error
}

// Datagram is a queued datagram with a logical identity.
type Datagram struct {
	B   []byte
	Tag string // e.g. "honest:3" (reply to exchange 3), "forged:flag-cleared"
}

// Answer is one way the environment can respond to a request.
type Answer struct {
	Name string
	// Apply enqueues datagrams / changes the world. It runs after the BMC has
	// processed the request unless LostRequest is set.
	Apply       func(t *Transport, rx *ref.Rx)
	LostRequest bool
	// Late: the datagrams Apply enqueues only arrive after this attempt timed out.
	Late bool
	// Pre runs before the BMC sees the request (e.g. a repository modification).
	Pre func(t *Transport)
	// Fail: Send returns this error at once (a socket error reported on the read
	// that follows the write) instead of waiting for a datagram.
	Fail error
}

// Transport is an in-memory model of one UDP socket in front of a BMC.
type Transport struct {
	BMC     *ref.BMC
	Ch      *Chooser
	Clock   *Clock
	Timeout time.Duration // charged to the clock on a lost reply
	Queue   []Datagram
	Log     []*Exchange
	Op      int // current operation index (set by the scenario)
	Attempt int // attempts within the current operation
	Horizon int // after this many attempts in one op only "ok" is offered
	// Menu returns the answers available for this request; index 0 must be the
	// conforming answer. nil means only the honest reply.
	Menu func(t *Transport, req []byte) []Answer
	// Window, if set, returns replies as windows into a reused 512-byte buffer
	// pre-filled with Poison instead of exact-capacity copies.
	Window bool
	Poison byte
	buf    [512]byte
	// Scenario tag mixed into state hashes.
	Tag string
	// dead holds per-attempt contexts whose deadline has passed in the model
	// (a Send that timed out waited until that context's deadline). A real
	// socket refuses to write once the deadline is behind it, so a later Send
	// with the same context fails at once without transmitting.
	dead map[context.Context]struct{}
	// MaxAttempts caps the transmissions of one operation (0: 5000); beyond it
	// Send panics with Runaway so the harness regains control.
	MaxAttempts int
	// Yield, if set, is called at the entry and exit of every Send so a
	// controlled scheduler can interleave other threads there.
	Yield func(where string)
	// SleepQuantum, if non-zero, is charged for every back-off sleep instead
	// of the (jittered, hence nondeterministic) duration the library asked for.
	SleepQuantum time.Duration
	// RootKey marks contexts derived from the harness's root context.
	Closed bool
	// DeadCtxSends counts Sends refused because their per-attempt context had
	// already been used up by an earlier timed-out attempt.
	DeadCtxSends int
}

type rootKeyT struct{}

// RootKey is set on the harness root context so Send can tell descendants.
var RootKey = rootKeyT{}

func (t *Transport) Address() net.Addr { return &net.UDPAddr{IP: net.IPv4(127, 0, 0, 1), Port: 623} }
func (t *Transport) Close() error      { t.Closed = true; return nil }

// BeginOp marks the start of a new caller-level operation.
func (t *Transport) BeginOp() { t.Op++; t.Attempt = 0 }

// Honest is the conforming answer: the BMC's own reply (or silence).
func Honest() Answer {
	return Answer{Name: "ok", Apply: func(t *Transport, rx *ref.Rx) {
		if b := t.BMC.Honest(rx); b != nil {
			t.Enqueue(b, fmt.Sprintf("honest:%d", len(t.Log)-1))
		}
	}}
}

func (t *Transport) Enqueue(b []byte, tag string) {
	t.Queue = append(t.Queue, Datagram{B: b, Tag: tag})
}

func (t *Transport) queueHash() uint64 {
	h := uint64(len(t.Queue))
	for _, d := range t.Queue {
		h = rep.H(h, d.B)
	}
	return h
}

// NonDescendant counts Sends whose context is not derived from the root.
var ErrNotDescendant = errors.New("per-attempt context is not derived from the caller's context")

func (t *Transport) Send(ctx context.Context, b []byte) ([]byte, error) {
	if t.Yield != nil {
		t.Yield("transport.Send entry")
		defer t.Yield("transport.Send exit")
	}
	ex := &Exchange{Req: append([]byte{}, b...), Op: t.Op, Attempt: t.Attempt}
	t.Attempt++
	if max := t.MaxAttempts; t.Attempt > max && max >= 0 {
		if max == 0 && t.Attempt <= 5000 {
			// default cap
		} else {
			// a retry loop that no answer of the environment ends: give control back
			panic(Runaway{fmt.Sprintf("more than %d transmissions within one operation", t.Attempt-1)})
		}
	}
	t.Log = append(t.Log, ex)
	if t.Clock != nil && ctx.Value(RootKey) == nil {
		ex.Err = ErrNotDescendant
	}
	if _, isDead := t.dead[ctx]; isDead && ctx.Err() == nil {
		ex.CtxDone = true
		ex.Answer = "attempt-context-deadline-already-passed"
		ex.Err = context.DeadlineExceeded
		t.DeadCtxSends++
		return nil, context.DeadlineExceeded
	}
	if ctx.Err() != nil {
		// the real transport fails on the write deadline: nothing is transmitted
		ex.CtxDone = true
		ex.Answer = "ctx-expired"
		if ex.Err == nil {
			ex.Err = ctx.Err()
		}
		if t.Clock != nil {
			t.Clock.SendsAfterExpiry++
			if t.Clock.SendsAfterExpiry > 500 {
				panic(Runaway{"more than 500 transmissions attempted after the context expired"})
			}
		}
		return nil, ctx.Err()
	}
	if t.Clock != nil && t.Clock.Expired {
		// harness context expired but the library handed us a live context
		t.Clock.SendsAfterExpiry++
		ex.Err = ErrNotDescendant
	}
	late := t.react(b, ex)
	if ex.fail != nil {
		t.Queue = append(t.Queue, late...)
		ex.Err = ex.fail
		return nil, ex.fail
	}
	if len(t.Queue) == 0 {
		t.Queue = append(t.Queue, late...)
		if t.Clock != nil {
			t.Clock.Charge(t.Timeout)
		}
		ex.Err = ErrTimeout
		if _, ok := ctx.Deadline(); ok {
			// the attempt waited until its own deadline
			if t.dead == nil {
				t.dead = map[context.Context]struct{}{}
			}
			if len(t.dead) > 4096 {
				t.dead = map[context.Context]struct{}{}
			}
			t.dead[ctx] = struct{}{}
		}
		return nil, ErrTimeout
	}
	d := t.Queue[0]
	t.Queue = append(t.Queue[1:], late...)
	data := d.B
	if len(data) > 512 {
		data = data[:512]
	}
	ex.ReturnedTag = d.Tag
	ex.Returned = append([]byte{}, data...)
	if t.Window {
		for i := range t.buf {
			t.buf[i] = t.Poison
		}
		n := copy(t.buf[:], data)
		return t.buf[:n], nil
	}
	out := make([]byte, len(data))
	copy(out, data)
	return out[:len(data):len(data)], nil
}

// react lets the environment answer one request that reached the socket: it
// picks the answer (chooser), lets the BMC receive the request unless it is
// lost, and leaves the datagrams that arrive at once appended to t.Queue; the
// ones that only arrive after this attempt has timed out are returned.
func (t *Transport) react(b []byte, ex *Exchange) (late []Datagram) {
	answers := []Answer{Honest()}
	var rx *ref.Rx
	if t.Menu != nil && (t.Horizon == 0 || ex.Attempt < t.Horizon) {
		answers = t.Menu(t, b)
	}
	names := make([]string, len(answers))
	for i, a := range answers {
		names[i] = a.Name
	}
	st := rep.H(t.Tag, t.Op, ex.Attempt, t.queueHash(), t.BMC.Digest(), b)
	choice := 0
	if t.Ch != nil {
		choice = t.Ch.Choose("send", names, st)
	}
	a := answers[choice]
	ex.Answer = a.Name
	ex.fail = a.Fail
	if a.Pre != nil {
		a.Pre(t)
	}
	if !a.LostRequest {
		rx = t.BMC.Receive(b)
		ex.Rx = rx
	}
	if a.Apply != nil {
		before := len(t.Queue)
		a.Apply(t, rx)
		if a.Late {
			late = append(late, t.Queue[before:]...)
			t.Queue = t.Queue[:before]
		}
	}
	return late
}

// Sleep is installed as the back-off seam: it charges virtual time and lets
// the explorer decide nothing (sleeps are deterministic); it returns true so
// no real timer is started.
func (t *Transport) Sleep(ctx context.Context, d time.Duration) bool {
	if t.Clock == nil {
		return true
	}
	t.Clock.Sleeps = append(t.Clock.Sleeps, d)
	if t.Clock.Expired {
		t.Clock.SleepsAfterExpiry++
		if t.Clock.SleepsAfterExpiry > 500 {
			panic(Runaway{"more than 500 back-off sleeps started after the context expired"})
		}
		return true
	}
	if t.SleepQuantum > 0 {
		d = t.SleepQuantum
	}
	if t.Clock.Charge(d) && ctx.Value(RootKey) == nil {
		t.Clock.UnboundSleepsCrossing++
	}
	return true
}

// ---- standard answers ---------------------------------------------------------

// Code answers the request with completion code cc and no data beyond the
// addressing extension (the body code of group-extension commands).
func Code(name string, cc byte) Answer {
	return Answer{Name: name, Apply: func(t *Transport, rx *ref.Rx) {
		if rx == nil || rx.Msg == nil {
			return
		}
		var body []byte
		if rx.Msg.NetFn == 0x2c && len(rx.Msg.Data) > 0 {
			body = []byte{rx.Msg.Data[0]}
		}
		t.Enqueue(t.BMC.Respond(rx, cc, body), fmt.Sprintf("code-%02x:%d", cc, len(t.Log)-1))
	}}
}

// LostReply: the BMC processed the request, its reply never arrives.
func LostReply() Answer { return Answer{Name: "lost-reply"} }

// SocketError: the request reaches the BMC, its reply does not come back, and
// the read fails at once with err (e.g. an ICMP "host unreachable" surfacing on
// a connected UDP socket) rather than with a timeout.
func SocketError(name string, err error) Answer { return Answer{Name: name, Fail: err} }

// LostRequest: the request never reaches the BMC.
func LostRequest() Answer { return Answer{Name: "lost-request", LostRequest: true} }

// LateReply: the honest reply arrives after this attempt has timed out.
func LateReply() Answer { a := Honest(); a.Name = "late"; a.Late = true; return a }

// Duplicate: the honest reply arrives twice.
func Duplicate() Answer {
	return Answer{Name: "duplicate", Apply: func(t *Transport, rx *ref.Rx) {
		if b := t.BMC.Honest(rx); b != nil {
			t.Enqueue(b, fmt.Sprintf("honest:%d", len(t.Log)-1))
			t.Enqueue(b, fmt.Sprintf("honest-dup:%d", len(t.Log)-1))
		}
	}}
}

// Raw delivers the datagram produced by f instead of the honest reply.
func Raw(name string, f func(t *Transport, rx *ref.Rx) []byte) Answer {
	return Answer{Name: name, Apply: func(t *Transport, rx *ref.Rx) {
		if b := f(t, rx); b != nil {
			t.Enqueue(b, name+fmt.Sprintf(":%d", len(t.Log)-1))
		}
	}}
}
